"""C09 - a terminal event stops the integration exactly at the event."""
from __future__ import annotations

from . import c07_events as C7
from . import events_common as EC

PROPERTY = "C09"
LEVEL = "other"
EXPLANATION = (
    "(A) The REAL handle_events on a symbolic step with two or three events, at least one terminal (bracket_root stub, both 'arbitrary' and 'exact' mode): only events up to and "
    "including the first terminal one along the direction of integration are returned, in integration order, terminate is set exactly then, and the list ends at the EARLIEST "
    "located terminal crossing.  (B) The REAL event section of OdeSystem.integrate (roll-back of the step, re-integration to the root, status, buffer handling, dense output) runs with t0, tf, dt0 symbolic, "
    "both directions, finite and infinite tf, mixes of terminal and non-terminal events, and handle_events replaced by an oracle constrained only by the guarantee C07(A) proves "
    "of the real handle_events (list cut after the first terminal event, terminate flag).  z3 decides on every feasible path: the last recorded time equals the terminal root, "
    "nothing beyond it is kept, rows strictly monotone, the last reported event is the terminal one, no detector call after it, status 'terminated by event' = success, callbacks "
    "once per outer step (sub-steps to the root share one invocation); with dense output: one piece per recorded step, contiguous in step order from t0 to the root, end "
    "values = recorded states, end slopes = f at the recorded states (stale slopes of the rolled-back step are caught); a following integrate() continues monotonically to tf.")
ASSUMPTIONS = C7.ASSUMPTIONS
BOUNDS = C7.BOUNDS
OUTSIDE = ["'last state on the event surface' as g(t_e, y_e) ~ 0 needs the root finder (C14) and the event function; decided here as: last time = reported root and last state = result of "
           "re-integrating the step from t_prev to the root"] + C7.OUTSIDE


def instances(tier):
    hs = [i for i in C7.handle_instances(tier, "C09") if any(i["terms"]) and i["E"] >= 2]
    return hs + C7.integrate_instances(tier, "C09")


def scenario(c, inst):
    if inst["kind"] == "handle":
        return C7.handle_scenario(c, inst, {"C09"})
    if inst["kind"] == "e2e":
        return EC.scenario_e2e(c, inst, {"C09"})
    return EC.scenario(c, inst, {"C09"})
