"""C11 - A-stability of the implicit classes, and agreement of the computed step with the stability function.

Part 1 (tableau algebra, z3 on exact rational polynomials):  R(z) = P(z)/Q(z), Q = det(I - zA), P = det(I - zA + z 1 b^T)
built at run time from the class attributes of every class in desolver.integrators.implicit_methods().
Part 2 (real code): RungeKuttaIntegrator.step / algebraic_system executed symbolically on y' = lambda*y, on the 2x2
damped-rotation block and on a diagonal pair with the exact_root stub; Q(z)*(y + dState) == P(z)*y.

Instances: <Class>-halfplane-direct (two-variable queries, <= 3 stages), <Class>-axis-hurwitz (axis, rays, Hermite-Biehler
certificate), <Class>-step-scalar / -step-block2 / -step-diag2 (the real step).  Candidates are replayed by replay() below.
"""
from __future__ import annotations

import time
from fractions import Fraction as F

import numpy as np

from .common import patched, run, flat

PROPERTY = "C11"
LEVEL = "other"
SLACK = F(1, 10 ** 9)          # relative slack on |R|^2 <= 1 (the shipped float64 coefficients are rounded)
TIGHT = F(1, 10 ** 12)         # thorough tier: the same queries once more with this slack
EXPLANATION = (
    "For each of the classes in desolver.integrators.implicit_methods() the stability function R = P/Q, Q = det(I - zA), "
    "P = det(I - zA + z*1*b^T), is built at run time from the class attributes tableau_intermediate / tableau_final as polynomials "
    "whose coefficients are the exact rational values of the float64 entries (Faddeev-LeVerrier in fractions.Fraction; cross-checked "
    "against P = Q + z*b^T adj(I - zA) 1).  With z = x + i*w and u = w^2 >= 0 (|P|^2, |Q|^2, Re Q and (Im Q)/w are polynomials in the two "
    "real solver variables x, u; conjugate symmetry covers w < 0) z3 decides: (direct) x <= 0 and |P|^2 > (1+1e-9)|Q|^2 is unsat; "
    "(poles) x <= 0 and Re Q = 0 and (w = 0 or (Im Q)/w = 0) is unsat - i.e. det(I - zA) has no zero at all in the closed left half-plane, "
    "which is stronger than 'R has no pole' (a zero of Q cancelled by P would still be reported); (axis) the same two at x = 0.  "
    "Independently, and as the only half-plane argument for RadauIIA19 (10 stages, the two-variable queries do not terminate), "
    "zero-freeness of Q on the closed left half-plane is certified through Hermite-Biehler: Q(-iw) = E(w^2) + i*w*O(w^2); z3 is asked for "
    "deg E roots of E and deg O roots of O, all positive and strictly interlacing (sat = certificate that Q(-z) is Hurwitz); the model is "
    "then re-validated in exact rational arithmetic (sign changes of E and O between separating rationals); Q(0) > 0, trace A > 0, the "
    "degree pattern and deg P <= deg Q are checked exactly; with the axis bound and the maximum-modulus principle this gives "
    "|R| <= sqrt(1+1e-9) on the half-plane.  Agreement of the CODE with R: the real RungeKuttaIntegrator.step (compute_step, "
    "algebraic_system, the weighted sum, broyden_update_jac) runs on symbolic (t, h of either sign, y, lambda) for y' = lambda*y, "
    "shape (1,), for y' = [[a,-b],[b,a]] y and for y' = diag(l0,l1) y, shape (2,), with optimizer.nonlinear_roots replaced by the "
    "exact_root stub (fresh stage unknowns K; the residual the real algebraic_system returns for them, with the arguments step passes, is "
    "recorded).  Obligation: Q(z)*(y + dState) == P(z)*y with z = h*lambda resp. h*(a+ib) (complex arithmetic written out in real and "
    "imaginary part) whenever residual(K) == 0.  It is discharged (i) as the exact polynomial identity "
    "Q*(y+dState) - P*y == sum_i m_i(z)*residual_i with the multipliers m = h*b^T adj(I - zA) computed from the tableau (normal-form "
    "arithmetic of the engine over Q, valid for all reals: counted as 'discharged syntactically'); if the identity fails the obligation goes "
    "to z3 under residual == 0; (ii) for <= 3 stages (scalar) resp. 1 stage (2x2) additionally by z3 under the assumption residual == 0, and "
    "for <= 2 stages the literal end-to-end statement |y + dState|^2 <= (1+1e-9)|y|^2 under residual == 0 and Re z <= 0 is decided by z3.  "
    "Hence an accepted exact-root step with Re(h*lambda) <= 0 has |y1| <= sqrt(1+1e-9)|y0|.  Violation candidates are replayed in "
    "float64/complex128: |R(z)| from numpy.linalg.solve on the class tableau, poles from the eigenvalues of A, the step through the real "
    "step() with the residual solved by numpy."
)
ASSUMPTIONS = [
    "real arithmetic over the exact rational value of every float64 tableau entry (no IEEE rounding inside the step)",
    "slack: |R(z)|^2 <= 1 + 1e-9 is claimed instead of <= 1, in the direct and in the axis query (the rounded float64 coefficients of the "
    "Gauss / Lobatto IIIA / IIIB / midpoint schemes have |R(iw)| = 1 only to rounding; measured max |R(iw)|-1 = 1.1e-15); the thorough tier "
    "repeats both queries with 1e-12",
    "exact_root stub for optimizer.nonlinear_roots: returns success=True, prec=0 and stage values K that satisfy the residual of the real "
    "algebraic_system exactly (symbolic: fresh symbols, obligations hold where residual == 0; float replay: the affine residual solved with "
    "numpy.linalg.solve); MINPACK's convergence for stiff z is not part of the claim (C15)",
    "trusted mathematical base of the Hermite-Biehler branch: (T1) Hermite-Biehler theorem - a real polynomial p(z) = h(z^2) + z g(z^2) with "
    "p(0) > 0, p'(0) > 0 is Hurwitz iff the zeros of E(t) = h(-t) and O(t) = g(-t) are real, positive, simple and interlace starting with a "
    "zero of E; (T2) maximum-modulus principle for a rational function with deg P <= deg Q without poles on the closed left half-plane: "
    "its supremum over the half-plane is its supremum over the imaginary axis",
    "each z3 call runs under a timeout; unknown is booked as inconclusive, never as success; unsat of the certificate query is a violation "
    "candidate (replayed: a numerically computed pole with Re <= 0)",
    "the rhs Jacobian handed to step is the exact one ([[lambda]] resp. [[a,-b],[b,a]], diag(l0,l1)); with the stub it only feeds "
    "broyden_update_jac, whose division forks (zero / non-zero denominator) are all explored",
]
BOUNDS = {
    "quick": dict(classes="all 16 of implicit_methods()", z="all z = x + i w with x <= 0, |z| unbounded",
                  two_variable_queries="the 15 classes with <= 3 stages", hermite_biehler_and_axis="every class", slack="1e-9 relative on |R|^2",
                  one_variable_slices="negative real axis, every class",
                  step_agreement="one step; shape (1,) scalar, shape (2,) rotation block and diagonal pair, every class; symbolic t, h (any sign, "
                                 "0 included), y, lambda / a, b / l0, l1"),
    "thorough": dict(classes="all 16 of implicit_methods()", z="all z = x + i w with x <= 0, |z| unbounded",
                     two_variable_queries="the 15 classes with <= 3 stages, additionally with slack 1e-12", hermite_biehler_and_axis="every class, "
                     "axis additionally with slack 1e-12", slack="1e-9 relative on |R|^2 (claimed), 1e-12 (additional obligations)",
                     one_variable_slices="rays z = -r(1 + i k), k in {0, 1/4, 1, 4, 32}, every class",
                     step_agreement="as quick, plus a second consecutive step from the state reached (scalar: every class; block: <= 3 stages)"),
}
OUTSIDE = [
    "convergence of the real nonlinear solver for stiff z (C15, not applicable); the acceptance rule of __call__ (C02 iii)",
    "IEEE rounding inside the step: |y1| <= |y0| is claimed for the exact-root step over R, up to the stated 1e-9 slack",
    "RadauIIA19: no direct two-variable query (Hermite-Biehler + axis bound + maximum modulus only)",
    "Jacobians that are not normal matrices: only scalar problems, 2x2 rotation-dilation blocks and diagonal pairs are executed",
]

TWO_VAR_MAX_STAGES = 3


# ----------------------------------------------------------------------------------------------------------------
# exact tableau algebra (fractions)

def _classes():
    import desolver.integrators as I
    return list(I.implicit_methods())


def _get_cls(name):
    for cls in _classes():
        if cls.__name__ == name:
            return cls
    raise KeyError(name)


def _flv(A):
    """Faddeev-LeVerrier over Q: det(lam I - A) = sum_k c[k] lam^k ; adj(I - zA) = sum_k z^k Ms[k]"""
    s = len(A)
    c = [F(0)] * (s + 1)
    c[s] = F(1)
    M = [[F(0)] * s for _ in range(s)]
    Ms = []
    for k in range(1, s + 1):
        AM = [[sum(A[i][l] * M[l][j] for l in range(s)) for j in range(s)] for i in range(s)]
        M = [[AM[i][j] + (c[s - k + 1] if i == j else 0) for j in range(s)] for i in range(s)]
        Ms.append(M)
        c[s - k] = -sum(sum(A[i][l] * M[l][i] for l in range(s)) for i in range(s)) / k
    return c, Ms


def _trim(p):
    p = list(p)
    while len(p) > 1 and p[-1] == 0:
        p.pop()
    return p


def _re_im_parts(coeffs):
    """p(x + i w) = Re(x, u) + i*w*Im(x, u) with u = w^2: two dicts {(deg x, deg u): coefficient}"""
    from math import comb
    re, im = {}, {}
    for k, pk in enumerate(coeffs):
        if pk == 0:
            continue
        for j in range(k + 1):
            cf = pk * comb(k, j)
            if j % 2 == 0:
                key, tgt, sign = (k - j, j // 2), re, (-1) ** (j // 2)
            else:
                key, tgt, sign = (k - j, (j - 1) // 2), im, (-1) ** ((j - 1) // 2)
            tgt[key] = tgt.get(key, F(0)) + sign * cf
    return ({k: v for k, v in re.items() if v != 0}, {k: v for k, v in im.items() if v != 0})


def _ev2(c, poly, x, u):
    """sum coef * x^i * u^j on SymReal / float; x = None means x = 0"""
    xp, up = {0: 1}, {0: 1}
    acc = 0
    for (i, j), k in sorted(poly.items()):
        if x is None and i > 0:
            continue
        for tbl, e, base in ((xp, i, x), (up, j, u)):
            if e not in tbl:
                m = max(q for q in tbl if q < e)
                val = tbl[m]
                for q in range(m + 1, e + 1):
                    val = val * base
                    tbl[q] = val
        acc = acc + _coef(c, k) * xp[i] * up[j]
    return acc


_CACHE = {}


def _data(clsname):
    """P, Q (coefficient lists, index = power of z) and the multiplier row v(z) = b^T adj(I - zA), all exact"""
    if clsname in _CACHE:
        return _CACHE[clsname]
    cls = _get_cls(clsname)
    ti = np.asarray(cls.tableau_intermediate, dtype=np.float64)
    tf = np.asarray(cls.tableau_final, dtype=np.float64)
    A = [[F(float(v)) for v in row[1:]] for row in ti]
    b = [F(float(v)) for v in tf[0][1:]]
    s = len(A)
    assert all(len(r) == s for r in A) and len(b) == s, "tableau shape"
    cq, Ms = _flv(A)
    Q = [cq[s - j] for j in range(s + 1)]
    B = [[A[i][j] - b[j] for j in range(s)] for i in range(s)]
    cp, _ = _flv(B)
    P = [cp[s - j] for j in range(s + 1)]
    v = [[sum(b[i] * Ms[k][i][j] for i in range(s)) for k in range(s)] for j in range(s)]     # v[j][k]: coefficient of z^k
    P2 = list(Q)
    for k in range(s):
        P2[k + 1] += sum(v[j][k] for j in range(s))
    assert P2 == P, "internal: matrix determinant lemma cross-check failed"
    d = dict(A=A, b=b, s=s, P=_trim(P), Q=_trim(Q), v=v, Af=ti[:, 1:].astype(np.float64), bf=tf[0, 1:].astype(np.float64))
    d["Pre"], d["Pim"] = _re_im_parts(d["P"])
    d["Qre"], d["Qim"] = _re_im_parts(d["Q"])
    _CACHE[clsname] = d
    return d


# ----------------------------------------------------------------------------------------------------------------
# number-type generic complex arithmetic on (re, im) pairs

def _cmul(a, b):
    return (a[0] * b[0] - a[1] * b[1], a[0] * b[1] + a[1] * b[0])


def _coef(c, k):
    return k if c.symbolic else float(k)


def _cpoly(c, coeffs, z):
    """Horner; coeffs[k] multiplies z^k; returns (re, im)"""
    r = (_coef(c, coeffs[-1]), 0)
    for k in reversed(coeffs[:-1]):
        r = _cmul(r, z)
        r = (r[0] + _coef(c, k), r[1])
    return r


def _abs2(a):
    return a[0] * a[0] + a[1] * a[1]


# ----------------------------------------------------------------------------------------------------------------

def instances(tier):
    out = []
    thorough = tier != "quick"
    for cls in _classes():
        n = cls.__name__
        s = int(np.asarray(cls.tableau_intermediate).shape[0])
        if s <= TWO_VAR_MAX_STAGES:
            out.append(dict(id="%s-halfplane-direct" % n, cls=n, kind="direct", tight=thorough,
                            budget=dict(wall_s=60 if not thorough else 400, max_paths=4,
                                        solver_timeout_ms=20000 if not thorough else 180000)))
        out.append(dict(id="%s-axis-hurwitz" % n, cls=n, kind="axis_hb", hb_timeout_ms=30000 if not thorough else 300000, tight=thorough,
                        rays=[[0, 1]] if not thorough else [[0, 1], [1, 4], [1, 1], [4, 1], [32, 1]],
                        budget=dict(wall_s=60 if not thorough else 400, max_paths=4, solver_timeout_ms=20000 if not thorough else 120000)))
        bs = dict(wall_s=60 if not thorough else 300, max_paths=200)
        out.append(dict(id="%s-step-scalar" % n, cls=n, kind="step", system="scalar", shape=[1], steps=2 if thorough else 1,
                        by_solver=s <= TWO_VAR_MAX_STAGES, norm_by_solver=s <= 2, budget=bs))
        out.append(dict(id="%s-step-block2" % n, cls=n, kind="step", system="block", shape=[2], steps=2 if (thorough and s <= 3) else 1,
                        by_solver=s <= 1, budget=bs))
        out.append(dict(id="%s-step-diag2" % n, cls=n, kind="step", system="diag", shape=[2], steps=1, by_solver=s <= 1, norm_by_solver=s <= 1,
                        budget=bs))
        if thorough or n in ("BackwardEuler", "GaussLegendre4", "RadauIIA5", "LobattoIIIC4"):
            out.append(dict(id="%s-step-matrix22" % n, cls=n, kind="step", system="matrix", shape=[2, 2], steps=1, by_solver=False, budget=bs))
        if np.asarray(cls.tableau_final).shape[0] == 2:
            for setting in (True, False):
                out.append(dict(id="%s-step-scalar-adaptivity-set-%s" % (n, setting), cls=n, kind="step", system="scalar", shape=[1], steps=1,
                                by_solver=s <= TWO_VAR_MAX_STAGES, norm_by_solver=s <= 2, adaptivity_setting=setting, budget=bs))
        if s <= (1 if not thorough else 2):
            # the full __call__: first stage solve reported as failed, the retry solved exactly - the ACCEPTED step must still not grow |y|
            out.append(dict(id="%s-call-retry-scalar" % n, cls=n, kind="call_retry", shape=[1], budget=bs))
        first_row_zero = bool(np.all(np.asarray(cls.tableau_intermediate, dtype=np.float64)[0] == 0.0))
        if s <= 2 or first_row_zero:
            out.append(dict(id="%s-param-change-scalar" % n, cls=n, kind="param_change", shape=[1], budget=bs))
            # the same object takes a second step of ANOTHER size (any two sizes of the same sign, however close or tiny)
            if thorough or s <= 1 or first_row_zero:        # (2-stage classes with a full first row: tens of seconds of nonlinear solving each, thorough tier)
                out.append(dict(id="%s-step-size-change-scalar" % n, cls=n, kind="param_change", shape=[1], step_change=True, budget=bs))
    return out


# ----------------------------------------------------------------------------------------------------------------
# part 1

def _book(c, name, outcome, reason=""):
    """book an obligation decided by a z3 call made by this module (not through c.check) as 'discharged' (by the solver) or
    'inconclusive' (solver unknown) in the engine's statistics - the engine has no public call for that"""
    if not c.symbolic or c.replaying:
        return
    ex = c.ex
    ex.stats["checks"] += 1
    ex.stats[outcome] += 1
    st = ex.check_names.setdefault(name, dict(evaluated=0, trivial=0, discharged=0, sat=0, inconclusive=0, known=0))
    st["evaluated"] += 1
    st[outcome] += 1
    c.checks.append(name)
    if outcome == "inconclusive":
        ex.inconclusive.append(dict(check=name, reason=reason, path=[]))


def _abs2_parts(c, d, which, x, u):
    re = _ev2(c, d[which + "re"], x, u)
    im = _ev2(c, d[which + "im"], x, u)
    return re, im, re * re + u * im * im


def _scn_direct(c, inst, d):
    """z = x + i w, u = w^2 >= 0 (|P|^2, |Q|^2, Re Q and (Im Q)/w are polynomials in x and u).
    Symbolic only: candidates of the 'direct' / 'axis_hb' instances are replayed by replay() below, not by re-running this on floats."""
    x = c.real("x")
    u = c.real("u")
    c.assume(x <= 0)
    c.assume(u >= 0)
    _, _, P2 = _abs2_parts(c, d, "P", x, u)
    Qre, Qim, Q2 = _abs2_parts(c, d, "Q", x, u)
    c.check("c11.halfplane.R_bounded_by_one", ~(as_real(P2) > (1 + SLACK) * Q2),
            info=dict(cls=inst["cls"], what="|P(z)|^2 <= (1+1e-9)|Q(z)|^2 for Re z <= 0"))
    c.check("c11.halfplane.no_pole", ~((as_real(Qre) == 0) & ((u == 0) | (as_real(Qim) == 0))),
            info=dict(cls=inst["cls"], what="Q(z) != 0 for Re z <= 0"))
    if inst.get("tight"):
        c.check("c11.halfplane.R_bounded_by_one.slack_1e-12", ~(as_real(P2) > (1 + TIGHT) * Q2),
                info=dict(cls=inst["cls"], what="|P(z)|^2 <= (1+1e-12)|Q(z)|^2 for Re z <= 0"))


def _hb_parts(Q):
    """p(z) = Q(-z); p(iw) = E(w^2) + i w O(w^2)"""
    a = [((-1) ** k) * q for k, q in enumerate(Q)]
    E = _trim([((-1) ** k) * a[2 * k] for k in range((len(a) + 1) // 2)])
    O = _trim([((-1) ** k) * a[2 * k + 1] for k in range(len(a) // 2)]) if len(a) > 1 else [F(0)]
    return a, E, O


def _peval(p, t):
    r = F(0)
    for k in reversed(p):
        r = r * t + k
    return r


def _hb_certificate(d, timeout_ms):
    """returns dict(status = sat|unsat|unknown, roots=..., validated=bool, detail=...)"""
    import z3
    a, E, O = _hb_parts(d["Q"])
    nE, nO = len(E) - 1, len(O) - 1
    n = len(d["Q"]) - 1
    res = dict(degQ=n, degE=nE, degO=nO, a0=str(a[0]), a1=float(a[1]) if n >= 1 else None)
    if n == 0:
        res.update(status="sat", validated=True, roots=[], detail="Q is constant")
        return res
    if not (a[0] > 0 and a[1] > 0):
        res.update(status="unsat", validated=False, roots=[], detail="Q(0) > 0 and trace(A) > 0 required")
        return res
    # a Hurwitz polynomial of degree n has deg E = floor(n/2), deg O = floor((n-1)/2)
    if nE != n // 2 or nO != (n - 1) // 2 or (n >= 2 and O == [0]):
        res.update(status="unsat", validated=False, roots=[], detail="degree pattern of even/odd part excludes a Hurwitz polynomial")
        return res
    if nE == 0 and nO == 0:
        res.update(status="sat", validated=True, roots=[], detail="degree 1: Q(0) > 0 and trace(A) > 0 suffice")
        return res
    es = [z3.Real("e%d" % i) for i in range(nE)]
    os_ = [z3.Real("o%d" % i) for i in range(nO)]

    def zpoly(p, t):
        r = z3.RealVal(0)
        for k in reversed(p):
            r = r * t + z3.RealVal(str(k))
        return r

    cons = []
    seq = []
    for i in range(max(nE, nO)):
        if i < nE:
            seq.append(es[i])
        if i < nO:
            seq.append(os_[i])
    if seq:
        cons.append(seq[0] > 0)
    for u, v_ in zip(seq, seq[1:]):
        cons.append(u < v_)
    for e in es:
        cons.append(zpoly(E, e) == 0)
    for o in os_:
        cons.append(zpoly(O, o) == 0)
    t0 = time.time()
    status = "unknown"
    model = None
    for mk in (lambda: z3.Tactic("qfnra-nlsat").solver(), lambda: z3.Solver()):
        try:
            s = mk()
            s.set("timeout", int(timeout_ms))
            s.add(*cons)
            r = s.check()
        except z3.Z3Exception:
            continue
        if r == z3.sat:
            status, model = "sat", s.model()
            break
        if r == z3.unsat:
            status = "unsat"
            break
    res["z3_s"] = round(time.time() - t0, 3)
    res["status"] = status
    res["validated"] = False
    res["roots"] = []
    if status != "sat":
        return res
    approx = []
    for vv in seq:
        val = model.eval(vv, model_completion=True)
        if z3.is_algebraic_value(val):
            val = val.approx(40)
        approx.append(F(val.numerator_as_long(), val.denominator_as_long()))
    res["roots"] = [float(r) for r in approx]
    res["validated"] = _validate_interlacing(E, O, approx, nE, nO)
    return res


def _validate_interlacing(E, O, approx, nE, nO):
    """exact re-validation: separating rationals 0 = t0 < t1 < ... ; E changes sign on (t0,t1), O on (t1,t2), E on (t2,t3) ...
    => E has nE, O has nO simple positive roots, interlacing, starting with a root of E."""
    if not approx:
        return True
    if any(not (u < v_) for u, v_ in zip(approx, approx[1:])) or not approx[0] > 0:
        return False
    t = [F(0)] + [(u + v_) / 2 for u, v_ in zip(approx, approx[1:])] + [approx[-1] * 2 + 1]
    for i in range(len(approx)):          # the sequence alternates E, O, E, ... by construction
        p = E if i % 2 == 0 else O
        if not (_peval(p, t[i]) * _peval(p, t[i + 1]) < 0):
            return False
    return (len(approx) + 1) // 2 == nE and len(approx) // 2 == nO


def _scn_axis_hb(c, inst, d):
    cls = inst["cls"]
    u = c.real("u")
    c.assume(u >= 0)
    _, _, P2 = _abs2_parts(c, d, "P", None, u)
    Qre, Qim, Q2 = _abs2_parts(c, d, "Q", None, u)
    c.check("c11.axis.R_bounded_by_one", ~(as_real(P2) > (1 + SLACK) * Q2), info=dict(cls=cls, what="|P(iw)|^2 <= (1+1e-9)|Q(iw)|^2"))
    c.check("c11.axis.no_pole", ~((as_real(Qre) == 0) & ((u == 0) | (as_real(Qim) == 0))), info=dict(cls=cls, what="Q(iw) != 0"))
    if inst.get("tight"):
        c.check("c11.axis.R_bounded_by_one.slack_1e-12", ~(as_real(P2) > (1 + TIGHT) * Q2),
                info=dict(cls=cls, what="|P(iw)|^2 <= (1+1e-12)|Q(iw)|^2"))
    # one-variable slices of the half-plane claim (direct cross-checks of the Hermite-Biehler / maximum-modulus branch, the only direct
    # evidence off the axis for RadauIIA19): the rays z = -r*(1 + i*k), r >= 0, for the slopes k listed in the instance (k = 0: real axis)
    for idx, (kn, kd) in enumerate(inst.get("rays", [])):
        r = c.real("r%d" % idx)
        c.assume(r >= 0)
        zr = (-r, -r * F(kn, kd))
        c.check("c11.ray%d.R_bounded_by_one" % idx, ~(as_real(_abs2(_cpoly(c, d["P"], zr))) > (1 + SLACK) * _abs2(_cpoly(c, d["Q"], zr))),
                info=dict(cls=cls, slope="%d/%d" % (kn, kd), what="|P(z)|^2 <= (1+1e-9)|Q(z)|^2 on z = -r(1 + i*slope), r >= 0"))
    c.check("c11.infinity.degP_le_degQ", len(d["P"]) <= len(d["Q"]), info=dict(cls=cls, degP=len(d["P"]) - 1, degQ=len(d["Q"]) - 1))
    if c.replaying:
        return
    cert = _hb_certificate(d, inst.get("hb_timeout_ms", 30000))
    c.note("hermite_biehler", cert)
    name = "c11.halfplane.hurwitz_certificate"
    if cert["status"] == "unknown":
        _book(c, name, "inconclusive", "z3 unknown on the interlacing query")
    elif cert["status"] == "unsat":
        c.check(name, False, info=dict(cls=cls, cert=cert))           # violation candidate, replayed numerically
    elif cert.get("z3_s") is None:
        c.check(name, True, info=dict(cls=cls, cert=cert))            # degree <= 1: nothing to interlace, decided by the exact sign tests
    else:
        _book(c, name, "discharged")
    if cert["status"] == "sat":
        if cert["validated"]:
            c.check(name + "_exact_sign_validation", True)
        else:
            _book(c, name + "_exact_sign_validation", "inconclusive", "the approximated z3 model did not separate the roots in exact arithmetic")


def as_real(x):
    from srx.core import as_symreal
    return as_symreal(x)


# ----------------------------------------------------------------------------------------------------------------
# part 2: the real step

class LinearRhs:
    """y' = lam*y (scalar), y' = [[a,-b],[b,a]] y (block), y' = diag(l0,l1) y (diag); exact Jacobian"""

    def __init__(self, c, lam, system):
        self.c = c
        self.lam = lam
        self.system = system
        self.calls = 0

    def __call__(self, t, y, **kw):
        self.calls += 1
        if self.system in ("scalar", "matrix"):
            return self.lam[0] * y
        a, b = self.lam
        if self.system == "block":
            return self.c.array([a * y[0] - b * y[1], b * y[0] + a * y[1]])
        return self.c.array([a * y[0], b * y[1]])

    def jac(self, t, y, **kw):
        if self.system == "matrix":
            m = int(np.prod(np.shape(y)))
            return self.c.array([[self.lam[0] if i == j else 0 * self.lam[0] for j in range(m)] for i in range(m)]).reshape(tuple(np.shape(y)) * 2)
        if self.system == "scalar":
            return self.c.array([[self.lam[0]]])
        a, b = self.lam
        if self.system == "block":
            return self.c.array([[a, -b], [b, a]])
        return self.c.array([[a, 0 * a], [0 * a, b]])


def exact_root_stub(c, log):
    """contract stub for optimizer.nonlinear_roots: the root of the real residual function.
    symbolic: fresh K, the residual f(K) is recorded (assumed == 0 by the scenario); float replay: f is affine in K for a linear rhs,
    solved with numpy."""

    def stub(f, x0, jac=None, tol=None, verbose=False, maxiter=200, use_scipy=True, additional_args=tuple(),
             additional_kwargs=dict(), var_bounds=None):
        shape = np.shape(x0)
        n = int(np.prod(shape)) if shape else 1
        if c.symbolic:
            K = c.uf("K", [], n, fresh=True)
            root = c.array(K).reshape(shape)
            res = f(root, *additional_args, **additional_kwargs)
            log.append(dict(root=root, res=flat(c, res), K=K))
            return root, (True, 1, 1, 1, 0.0)
        f0 = np.asarray(f(np.zeros(shape), *additional_args, **additional_kwargs), dtype=np.float64).reshape(-1)
        J = np.zeros((n, n))
        for j in range(n):
            e = np.zeros(n)
            e[j] = 1.0
            J[:, j] = np.asarray(f(e.reshape(shape), *additional_args, **additional_kwargs), dtype=np.float64).reshape(-1) - f0
        root = np.linalg.solve(J, -f0).reshape(shape)
        res = np.asarray(f(root, *additional_args, **additional_kwargs), dtype=np.float64).reshape(-1)
        log.append(dict(root=root, res=list(res), K=list(root.reshape(-1))))
        return root, (True, 1, 1, 1, 0.0)
    return stub


def _mk(c, cls, shape):
    dt = np.dtype(object) if c.symbolic else np.dtype(np.float64)
    return cls(tuple(shape), dtype=dt, rtol=0.0, atol=1e-6)


def _scn_step(c, inst, d):
    import desolver.utilities.optimizer as opt
    cls = _get_cls(inst["cls"])
    shape = tuple(inst["shape"])
    system = inst.get("system", "scalar")
    s = d["s"]
    n = int(np.prod(shape))
    t = c.real("t")
    h = c.real("h")
    if system == "matrix":
        # a matrix-shaped state (2, 2) with Y' = lam*Y elementwise: every entry is the scalar test equation
        lam = (c.real("lam"),)
        zs = [(h * lam[0], 0 * h)] * 4
    elif system == "scalar":
        lam = (c.real("lam"),)
        zs = [(h * lam[0], 0 * h)]                    # one complex z per decoupled complex component
    elif system == "block":
        lam = (c.real("a"), c.real("b"))
        zs = [(h * lam[0], h * lam[1])]
    else:                                             # "diag": two uncoupled real eigenvalues
        lam = (c.real("l0"), c.real("l1"))
        zs = [(h * lam[0], 0 * h), (h * lam[1], 0 * h)]
    y = c.array([c.real("y%d" % i) for i in range(n)]).reshape(shape)
    st, integ = run(_mk, c, cls, shape)
    if st != "ok":
        c.check("c11.step.constructs", False, info=repr(integ))
        return
    if inst.get("adaptivity_setting") is not None:
        # the public adaptivity setting of the integrator is assigned (either value): the step must remain the scheme's own step
        integ.is_adaptive = bool(inst["adaptivity_setting"])
    rhs = LinearRhs(c, lam, system)
    by_solver = bool(inst.get("by_solver"))
    tt, yy = t, y
    for rep in range(int(inst.get("steps", 1))):
        log = []
        integ.initial_rhs = rhs(tt, yy)
        with patched(opt, "nonlinear_roots", exact_root_stub(c, log)):
            st, r = run(integ.step, rhs, tt, yy, {}, h)
        if st != "ok":
            c.check("c11.step.no_exception", False, info=repr(r) if st == "exc" else "does not terminate")
            return
        c.check("c11.step.one_stage_solve", len(log) == 1, info=dict(solves=len(log)))
        if len(log) != 1:
            return
        new_h, (dT, dY) = r
        res = log[0]["res"]
        c.check("c11.step.residual_has_one_entry_per_stage_and_component", len(res) == s * n, info=dict(got=len(res)))
        if len(res) != s * n:
            return
        c.check("c11.step.dTime_is_h", c.eq(dT, h))
        y1 = yy + dY
        # complex components: (state before, state after, residual of stage i); algebraic_system flattens (dim, stages) in C order
        if system == "block":
            comps = [((yy[0], yy[1]), (y1[0], y1[1]), [(res[i], res[s + i]) for i in range(s)])]
        else:
            yyf, y1f = flat(c, yy), flat(c, y1)
            comps = [((yyf[j], 0 * h), (y1f[j], 0 * h), [(res[j * s + i], 0 * h) for i in range(s)]) for j in range(n)]
        identities, equalities = [], []
        if c.symbolic:
            scale = 1
        else:
            zabs = max(float(np.hypot(float(z[0]), float(z[1]))) for z in zs)
            mag = sum(abs(float(q)) * zabs ** k for k, q in enumerate(d["Q"])) + sum(abs(float(p)) * zabs ** k for k, p in enumerate(d["P"]))
            ymag = max(1.0, float(np.max(np.abs(np.asarray(yy, dtype=np.float64)))), float(np.max(np.abs(np.asarray(y1, dtype=np.float64)))))
            cond = 1.0
            for z in zs:
                try:
                    cond = max(cond, float(np.linalg.cond(np.eye(s) - complex(float(z[0]), float(z[1])) * d["Af"])))
                except Exception:
                    pass
            scale = 64 * mag * ymag * min(cond, 1e6)
        for zc, (Y0, Y1, rc) in zip(zs, comps):
            Pz = _cpoly(c, d["P"], zc)
            Qz = _cpoly(c, d["Q"], zc)
            lhs = _cmul(Qz, Y1)
            rhs_ = _cmul(Pz, Y0)
            equalities += [c.eq(lhs[0], rhs_[0], scale), c.eq(lhs[1], rhs_[1], scale)]
            if c.symbolic:
                # certificate: Q*(y + dY) - P*y = h * sum_i v_i(z) * res_i   with v = b^T adj(I - zA)
                comb = (0 * h, 0 * h)
                for i in range(s):
                    term = _cmul(_cpoly(c, d["v"][i], zc), rc[i])
                    comb = (comb[0] + h * term[0], comb[1] + h * term[1])
                identities += [c.eq(lhs[0] - rhs_[0], comb[0]), c.eq(lhs[1] - rhs_[1], comb[1])]
        name = "c11.step%d.equals_R_times_y" % rep
        info = dict(cls=inst["cls"], system=system, what="Q(z)(y+dY) == P(z)y for the root K of the real residual")
        if c.symbolic:
            ident = c.all(identities)
            certified = bool(ident.is_const and ident.value)
            c.note("step%d_certified_by_identity" % rep, certified)
            if certified:
                # Q(z)(y+dY) - P(z)y == h b^T adj(I-zA) residual(K) as polynomials: holds for all reals, in particular where residual == 0
                c.check(name, True, info=info)
            if (by_solver and (rep == 0 or s <= 2)) or not certified:
                for rr in res:
                    c.assume(c.eq(rr, 0))
                c.check(name if not certified else name + ".by_solver", c.all(equalities), info=info)
                if inst.get("norm_by_solver") and rep == 0:
                    # the literal statement of the property, end to end, for the small classes
                    c.assume(zs[0][0] <= 0)
                    if len(zs) > 1:
                        c.assume(zs[1][0] <= 0)
                    for (Y0, Y1, rc) in comps:
                        c.check("c11.step0.modulus_not_increased.by_solver", ~(_abs2(Y1) > (1 + SLACK) * _abs2(Y0)),
                                info=dict(cls=inst["cls"], system=system, what="|y + dY|^2 <= (1+1e-9)|y|^2 given residual(K) == 0 and Re z <= 0"))
        else:
            for rr in res:
                c.assume(c.eq(rr, 0, scale))
            c.check(name, c.all(equalities), info=info)
            c.check(name + ".by_solver", c.all(equalities), info=info)
            if inst.get("norm_by_solver") and rep == 0 and all(float(z[0]) <= 0 for z in zs):
                for (Y0, Y1, rc) in comps:
                    c.check("c11.step0.modulus_not_increased.by_solver", not (float(_abs2(Y1)) > (1.0 + 0.5 * float(SLACK)) * float(_abs2(Y0))))
        tt, yy = tt + dT, y1


def _scn_call_retry(c, inst, d):
    """real RungeKuttaIntegrator.__call__ on y' = lam*y, lam real, h*lam <= 0, h of either sign: the first stage solve comes back failed
    (arbitrary iterate), the retried one is the exact root of the real residual; the accepted step must not increase |y|"""
    import desolver.utilities.optimizer as opt
    from checks.common import ctrl_stub
    cls = _get_cls(inst["cls"])
    t, h, lam = c.real("t"), c.real("h"), c.real("lam")
    c.assume(h != 0)
    c.assume(h * lam <= 0)
    y = c.array([c.real("y0")])
    st, integ = run(_mk, c, cls, (1,))
    if st != "ok":
        c.check("c11.call.constructs", False, info=repr(integ))
        return
    integ.update_timestep = ctrl_stub(c, integ, fixed=1.0)
    rhs = LinearRhs(c, (lam,), "scalar")
    log = []
    exact = exact_root_stub(c, log)
    state = dict(n=0)

    def stub(f, x0, **kw):
        state["n"] += 1
        if state["n"] == 1:
            K = c.uf("Kfail", [], int(np.prod(np.shape(x0))), fresh=True)
            return c.array(K).reshape(np.shape(x0)), (False, 1, 1, 1, 1.0)
        return exact(f, x0, **kw)
    with patched(opt, "nonlinear_roots", stub):
        st, r = run(integ, rhs, t, y, {}, h)
    if st != "ok":
        c.check("c11.call.returns_after_one_failed_solve", False, info=repr(r))
        return
    new_h, (dT, dY) = r
    c.check("c11.call.retried_after_failed_solve", state["n"] >= 2, info=dict(solves=state["n"]))
    if not log:
        return
    for rr in log[-1]["res"]:
        c.assume(c.eq(rr, 0, 64))
    y1 = y[0] + dY[0]
    c.check("c11.call.accepted_step_keeps_direction_of_h", c.lt(0, dT * h), info=dict(cls=inst["cls"]))
    c.check("c11.call.accepted_step_does_not_increase_modulus", c.le(y1 * y1, (1 + SLACK) * y[0] * y[0], 1), info=dict(cls=inst["cls"]))


class ParamRhs:
    """y' = lam*y with lam taken from the system's constants"""

    def __call__(self, t, y, lam=None, **kw):
        return lam * y

    def jac(self, t, y, lam=None, **kw):
        from srx import core
        c = core.ctx() if core.have_ctx() else None
        return c.array([[lam]]) if c is not None else np.array([[lam]])


def _scn_param_change(c, inst, d):
    """two consecutive real __call__s of ONE implicit integrator on y' = lam*y: the decay rate is changed (through the constants) between
    the calls and the second call starts exactly where the first ended.  Both stage solves are exact roots of the real residual.  The second
    accepted step must be the stability-function step of the NEW equation: in particular it must not increase |y| (h*lam_new <= 0)."""
    import desolver.utilities.optimizer as opt
    from checks.common import ctrl_stub
    cls = _get_cls(inst["cls"])
    t, h, lam0, lam1 = c.real("t"), c.real("h"), c.real("lam0"), c.real("lam1")
    c.assume(h != 0)
    c.assume(h * lam0 <= 0)
    c.assume(h * lam1 <= 0)
    y = c.array([c.real("y0")])
    st, integ = run(_mk, c, cls, (1,))
    if st != "ok":
        c.check("c11.param.constructs", False, info=repr(integ))
        return
    integ.update_timestep = ctrl_stub(c, integ, fixed=1.0)
    rhs = ParamRhs()
    log = []
    with patched(opt, "nonlinear_roots", exact_root_stub(c, log)):
        st, r = run(integ, rhs, t, y, dict(lam=lam0), h)
        if st != "ok":
            c.check("c11.param.first_call_returns", False, info=repr(r))
            return
        for rr in log[-1]["res"]:
            c.assume(c.eq(rr, 0, 64))
        _, (dT, dY) = r
        y1 = y + dY
        y1c = y1[0]
        n0 = len(log)
        h2 = h
        if inst.get("step_change"):
            h2 = c.real("h2")
            c.assume(h2 * h > 0)
            c.assume(h2 != h)
        st, r = run(integ, rhs, t + dT, y1, dict(lam=lam1), h2)
    if st != "ok":
        c.check("c11.param.second_call_returns", False, info=repr(r))
        return
    if len(log) == n0:
        c.check("c11.param.second_call_solves_its_stage_equations", False)
        return
    for rr in log[-1]["res"]:
        c.assume(c.eq(rr, 0, 64))
    _, (dT2, dY2) = r
    y2 = y1c + dY2[0]
    c.case()
    c.check("c11.param.step_after_parameter_change_does_not_increase_modulus", c.le(y2 * y2, (1 + SLACK) * y1c * y1c, 1), info=dict(cls=inst["cls"]))
    # and it is the stability-function step of the new equation: Q(z)*y2 = P(z)*y1 with z = h*lam1
    z = h2 * lam1
    P = sum((_coef(c, k) * z ** i for i, k in enumerate(d["P"])), 0 * z) if "P" in d else None
    Q = sum((_coef(c, k) * z ** i for i, k in enumerate(d["Q"])), 0 * z) if "Q" in d else None
    if P is not None and Q is not None:
        c.check("c11.param.step_after_parameter_change_is_R_of_new_z", c.eq(Q * y2, P * y1c, 64), info=dict(cls=inst["cls"]))


def scenario(c, inst):
    d = _data(inst["cls"])
    kind = inst["kind"]
    if kind == "param_change":
        return _scn_param_change(c, inst, d)
    if kind == "call_retry":
        return _scn_call_retry(c, inst, d)
    if kind == "direct":
        return _scn_direct(c, inst, d)
    if kind == "axis_hb":
        return _scn_axis_hb(c, inst, d)
    return _scn_step(c, inst, d)


# ----------------------------------------------------------------------------------------------------------------
# replay on float/complex arithmetic from the class attributes

def _R_float(d, z):
    s = d["s"]
    M = np.eye(s, dtype=np.complex128) - z * d["Af"].astype(np.complex128)
    try:
        k = np.linalg.solve(M, np.ones(s, dtype=np.complex128))
    except np.linalg.LinAlgError:
        return complex("inf")
    return 1.0 + z * np.dot(d["bf"].astype(np.complex128), k)


def _poles_float(d):
    mu = np.linalg.eigvals(d["Af"])
    return np.array([1.0 / m for m in mu if abs(m) > 1e-14])


def replay(inst, witness, check_name):
    from srx.explorer import ConcreteCtx
    d = _data(inst["cls"])
    kind = inst["kind"]
    if kind in ("step", "call_retry", "param_change"):
        cc = ConcreteCtx(witness)
        scenario(cc, inst)
        return dict(reproduced=check_name in cc.failed, failed=sorted(set(cc.failed)), notes={k: repr(v)[:300] for k, v in cc.notes.items()})
    x = float(F(witness.get("x", "0"))) if kind == "direct" else 0.0
    w = float(np.sqrt(max(0.0, float(F(witness.get("u", "0"))))))
    if check_name.startswith("c11.ray"):
        idx = int(check_name[len("c11.ray"):].split(".")[0])
        kn, kd = inst["rays"][idx]
        r = float(F(witness.get("r%d" % idx, "0")))
        x, w = -r, -r * kn / kd
    z = complex(x, w)
    out = dict(z=[x, w])
    if "R_bounded_by_one" in check_name:
        slack = float(TIGHT) if check_name.endswith("slack_1e-12") else float(SLACK)
        R = _R_float(d, z)
        out["abs_R"] = float(abs(R))
        Pz = sum(float(p) * z ** k for k, p in enumerate(d["P"]))
        Qz = sum(float(q) * z ** k for k, q in enumerate(d["Q"]))
        out["abs_P_over_Q"] = float(abs(Pz) / abs(Qz)) if Qz != 0 else float("inf")
        out["reproduced"] = bool(x <= 0 and (not np.isfinite(abs(R)) or abs(R) ** 2 > 1.0 + 0.5 * slack))
        return out
    if check_name.endswith("no_pole") or check_name.endswith("hurwitz_certificate"):
        poles = _poles_float(d)
        out["poles"] = [[float(p.real), float(p.imag)] for p in poles]
        bad = [p for p in poles if p.real <= 1e-9 * max(1.0, abs(p))]
        out["poles_in_closed_left_half_plane"] = [[float(p.real), float(p.imag)] for p in bad]
        if check_name.endswith("no_pole"):
            near = [p for p in bad if abs(p - z) <= 1e-6 * max(1.0, abs(z))]
            out["reproduced"] = bool(near)
        else:
            tr = float(np.trace(d["Af"]))
            out["trace_A"] = tr
            out["reproduced"] = bool(bad) or not (tr > 0)
        return out
    if check_name.endswith("degP_le_degQ"):
        # |R| -> infinity for |z| -> infinity: exhibit a point on the negative real axis
        for zz in (-1e3, -1e6, -1e9):
            R = _R_float(d, complex(zz, 0.0))
            if abs(R) ** 2 > 1.0 + 0.5 * float(SLACK):
                out.update(z=[zz, 0.0], abs_R=float(abs(R)), reproduced=True)
                return out
        out["reproduced"] = False
        return out
    out["reproduced"] = False
    out["note"] = "no replay rule for this check"
    return out
