"""C18 - the solve_ivp facade honours its arguments and agrees with the object API."""
from __future__ import annotations

import numpy as np

from . import spans
from .common import run, absval, flat, StepCap, FreshRhs

PROPERTY = "C18"
LEVEL = "other"
EXPLANATION = (
    "The real solve_ivp is executed symbolically: t_span, first_step, max_step and the entries of t_eval (length <= 3: sorted or not, repeated, "
    "with or without the end points) are real solver variables, y0 symbolic of shape (2,) or (2,2), args symbolic, methods by name and by class; in "
    "the same path the object API is driven with the same settings (congruent uninterpreted rhs).  z3 decides on every feasible path: shapes "
    "(n_t,) and (*state_shape, n_t); column k is the state recorded at t[k], first column y0; with t_eval the returned times are exactly the "
    "requested ones, ordered along the direction of integration, and each column equals the object API's state after integrate(t_k); args "
    "are bound positionally to the parameters after (t, y) at every evaluation; no recorded step exceeds max_step; sol/nfev/njev/status/"
    "success are those of the underlying system; rows equal the object-API rows (term identity).")
ASSUMPTIONS = [
    "real arithmetic; |tf-t0| <= N*|first_step|, 1/64 <= first_step <= 256, |t0|,|tf| <= 64; t_eval entries inside the span with consecutive gaps either 0 "
    "or in [step/2, 2*step] (a short hop permanently shrinks dt, after which the number of steps to the next entry is unbounded)",
    "fixed-step methods (Euler, RK4 by name and by class); rhs = uninterpreted function of (t, y) with syntactic congruence",
]
BOUNDS = {"quick": dict(N=2, t_eval_len="<= 2"), "thorough": dict(N=3, t_eval_len="<= 3")}
OUTSIDE = ["agreement with scipy.integrate.solve_ivp (independent compiled numerics, 'to tolerance'): not applicable to this technique",
           "adaptive default method RK45 under the real controller"]


def instances(tier):
    quick = tier == "quick"
    b = dict(wall_s=75 if quick else 600, max_paths=2500 if quick else 30000)
    out = []
    N = 2 if quick else 3
    for meth in (["Euler", "RK4Solver"] if quick else ["Euler", "RK4", "RK4Solver", "EulerSolver"]):
        out.append(dict(id="plain-%s-vec2" % meth, method=meth, shape=[2], mode="plain", N=N, budget=b))
    out.append(dict(id="plain-Euler-mat22", method="Euler", shape=[2, 2], mode="plain", N=N, budget=b))
    for na in (3, 4):
        out.append(dict(id="plain-Euler-vec2-args%d" % na, method="Euler", shape=[2], mode="plain", N=1, nargs=na, budget=b))
    # the right-hand side is a bound method / an object with __call__ (its first parameter `self` is not one of the rhs parameters)
    for form in ("method", "object"):
        out.append(dict(id="plain-Euler-vec2-args3-rhs-is-%s" % form, method="Euler", shape=[2], mode="plain", N=1, nargs=3, rhs_form=form, budget=b))
    out.append(dict(id="maxstep-Euler-vec2", method="Euler", shape=[2], mode="maxstep", N=N, budget=b))
    out.append(dict(id="maxstep-Euler-vec2-shared-callbacks-list", method="Euler", shape=[2], mode="maxstep", N=1, shared_callbacks=True, budget=b))
    for L in ((1, 2) if quick else (1, 2, 3)):
        out.append(dict(id="t_eval%d-Euler-vec2" % L, method="Euler", shape=[2], mode="t_eval", L=L, N=2, budget=b))
    out.append(dict(id="t_eval2-Euler-mat22", method="Euler", shape=[2, 2], mode="t_eval", L=2, N=2, budget=b))
    # three requested times of which two coincide (multiplicities must be kept, in either direction of integration)
    for rep in ((0, 1), (1, 2)):
        out.append(dict(id="t_eval3-Euler-vec2-repeat%d%d" % rep, method="Euler", shape=[2], mode="t_eval", L=3, N=2, repeat=list(rep), budget=b))
    # t_eval together with dense_output=True: the columns are still the states the stepper reaches at the requested times
    out.append(dict(id="t_eval1-Euler-vec2-dense", method="Euler", shape=[2], mode="t_eval", L=1, N=2, dense=True, budget=b))
    out.append(dict(id="t_eval2-RK4Solver-vec2-dense", method="RK4Solver", shape=[2], mode="t_eval", L=2, N=1, dense=True, budget=b))
    return out


def _eqv(c, a, b):
    fa, fb = flat(c, a), flat(c, b)
    return len(fa) == len(fb) and c.all([c.eq(u, v) for u, v in zip(fa, fb)])


def _method(name):
    import desolver.integrators as I
    return getattr(I, name) if name.endswith("Solver") else name


def scenario(c, inst):
    import desolver as de
    shape = tuple(inst["shape"])
    n = int(np.prod(shape))
    t0, tf, h0 = c.real("t0"), c.real("tf"), c.real("first_step")
    c.assume(h0 >= 1.0 / 64)
    c.assume(h0 <= 256)
    span = absval(c, tf - t0)
    c.assume(span <= inst["N"] * h0)
    c.assume(span >= 1.0 / 64)
    for v in (t0, tf):
        c.assume(v <= 64)
        c.assume(v >= -64)
    backward = bool(tf - t0 < 0)
    sgn = -1 if backward else 1
    y0 = c.array([c.real("y0_%d" % i) for i in range(n)]).reshape(shape)
    a_arg, b_arg = c.real("arg_a"), c.real("arg_b")
    base = FreshRhs(c, shape, name="f", mode="uf")
    seen_args = []
    # the rhs has four parameters after (t, y), two of them defaulted; args supplies the first nargs of them (2: only the
    # mandatory ones, 3: one default overridden, 4: all)
    nargs = inst.get("nargs", 2)
    K_DEF, M_DEF = object(), object()
    extra = [c.real("arg_k"), c.real("arg_m")][:nargs - 2]
    _all_args = [a_arg, b_arg] + extra
    for i_ in range(len(_all_args)):
        for j_ in range(i_ + 1, len(_all_args)):
            c.assume(_all_args[i_] != _all_args[j_])        # distinct values: a permutation of the arguments is then visible in the float replay too
    want_k = extra[0] if nargs >= 3 else K_DEF
    want_m = extra[1] if nargs >= 4 else M_DEF

    def fun(t, y, a, b, k=K_DEF, m=M_DEF):
        seen_args.append((a, b, k, m))
        return base(t, y)
    form = inst.get("rhs_form", "function")
    if form != "function":
        plain_fun = fun

        class Model:
            def rhs(self, t, y, a, b, k=K_DEF, m=M_DEF):
                return plain_fun(t, y, a, b, k, m)

            def __call__(self, t, y, a, b, k=K_DEF, m=M_DEF):
                return plain_fun(t, y, a, b, k, m)
        fun = Model().rhs if form == "method" else Model()
    base2 = FreshRhs(c, shape, name="f", mode="uf")

    def fun2(t, y, a, b):
        return base2(t, y)
    method = _method(inst["method"])
    mode = inst["mode"]
    capn = inst["N"] + 4
    opts = dict(first_step=h0, callbacks=[spans.cap_callback(c, capn if mode != "t_eval" else capn + 4, "adaptive")])
    max_step = None
    if mode == "maxstep":
        max_step = c.real("max_step")
        c.assume(max_step >= 1.0 / 64)
        c.assume(max_step <= 256)
        c.assume(span <= inst["N"] * max_step)
        opts["max_step"] = max_step
    t_eval = None
    if mode == "t_eval":
        L = inst["L"]
        t_eval = [c.real("te%d" % i) for i in range(L)]
        for te in t_eval:
            c.assume((te - t0) * (tf - te) >= 0)
        if inst.get("repeat"):
            i_, j_ = inst["repeat"]
            c.assume(c.eq(t_eval[i_], t_eval[j_]))
            others = [k for k in range(L) if k not in (i_, j_)]
            for k in others:
                c.assume(t_eval[k] != t_eval[i_])
        pts = [t0] + t_eval
        for i in range(len(pts)):
            for j in range(i + 1, len(pts)):
                g = absval(c, pts[i] - pts[j])
                c.assume(c.any([c.eq(g, 0), c.le(1.0 / 64, g)]) if c.symbolic else True)     # no hops at the rounding-tolerance scale
    if inst.get("shared_callbacks"):
        # an earlier solve_ivp call was given the SAME callbacks list object (a user's list of monitors) with other step bounds: the
        # caller's list is not modified and the earlier call's bounds do not act on this one
        shared = list(opts["callbacks"])
        opts["callbacks"] = shared
        n_shared = len(shared)
        earlier = dict(first_step=h0, callbacks=shared, min_step=8 * max_step)
        st0, res0 = run(de.solve_ivp, fun2, (t0, tf), y0, method=method, args=tuple([a_arg, b_arg] + extra), **earlier)
        c.check("c18.callers_callbacks_list_is_not_modified", len(shared) == n_shared, info=dict(before=n_shared, after=len(shared)))
    st, res = run(de.solve_ivp, fun, (t0, tf), y0, method=method, t_eval=t_eval, args=tuple([a_arg, b_arg] + extra), dense_output=bool(inst.get("dense", False)), **opts)
    if st != "ok":
        cause = getattr(res, "__cause__", None)
        if isinstance(cause, StepCap):
            return
        c.check("c18.solve_ivp_returns", False, info=dict(err=repr(res), cause=repr(cause), backward=backward, mode=mode))
        return
    c.case()
    osys = res.ode_system
    n_t = len(res.t)
    c.note("n_t", n_t)
    c.check("c18.shapes", tuple(np.shape(res.t)) == (n_t,) and tuple(np.shape(res.y)) == shape + (n_t,), info=dict(t=np.shape(res.t), y=np.shape(res.y)))
    def _same(u, v):
        if v is K_DEF or v is M_DEF or u is K_DEF or u is M_DEF:
            return u is v
        return (u is v) if c.symbolic else (u == v)
    c.check("c18.args_bound_positionally_at_every_evaluation", len(seen_args) > 0 and
            all(_same(u, a_arg) and _same(v, b_arg) and _same(k, want_k) and _same(m, want_m) for u, v, k, m in seen_args),
            info=dict(nargs=nargs, first=repr(seen_args[0])[:120] if seen_args else None))
    c.check("c18.counters_and_status_are_the_systems", res.nfev == osys.nfev and res.njev == osys.njev and res.success == osys.success and
            res.status == osys.integration_status and res.sol is osys.sol)
    c.check("c18.nfev_counts_calls", osys.nfev == base.completed, info=dict(nfev=osys.nfev, counted=base.completed))
    # ---- twin: the object API with the same settings
    def twin():
        import desolver.backend as D
        dt_init = D.ar_numpy.maximum(D.ar_numpy.minimum(h0, max_step if max_step is not None else np.inf), 0.0)    # what the facade documents: first_step clipped to [min_step, max_step]
        b = de.OdeSystem(fun2, y0=y0, t=(t0, tf), dt=dt_init, constants=dict(a=a_arg, b=b_arg))
        b.method = method
        return b
    st, tw = run(twin)
    if st != "ok":
        c.check("c18.object_api_constructs", False, info=repr(tw))
        return
    cbs = [spans.cap_callback(c, capn + 8, "adaptive")]
    if max_step is not None:
        def clipcb(system):
            d = system.dt
            mag = _min(c, absval(c, d), max_step)
            system.dt = mag if bool(d > 0) else -mag
        cbs.append(clipcb)
    if mode != "t_eval":
        st, r = run(tw.integrate, callback=cbs)
        if st != "ok":
            return
        c.check("c18.first_column_is_y0", _eqv(c, res.y[..., 0], y0))
        c.check("c18.times_are_the_systems", n_t == len(osys.t) and c.all([c.eq(res.t[k], osys.t[k]) for k in range(min(n_t, len(osys.t)))]))
        c.check("c18.column_k_is_state_at_t_k", c.all([_eqv(c, res.y[..., k], osys.y[k]) for k in range(min(n_t, len(osys.t)))]))
        c.check("c18.status_completed", spans.status_ok(osys) and c.le(absval(c, res.t[-1] - tf), 64 * spans.EPS64 * 64), info=osys.integration_status[:60])
        same = n_t == len(tw.t) and c.all([c.all([c.eq(res.t[k], tw.t[k]), _eqv(c, res.y[..., k], tw.y[k])]) for k in range(min(n_t, len(tw.t)))])
        c.check("c18.rows_equal_object_api", same, info=dict(n_t=n_t, twin=len(tw.t)))
        if max_step is not None:
            T = list(osys.t)
            c.check("c18.no_step_longer_than_max_step", c.all([c.le(absval(c, T[i + 1] - T[i]), max_step, 1) for i in range(len(T) - 1)]))
        return
    # ---- t_eval
    L = inst["L"]
    c.check("c18.t_eval_returns_one_column_per_requested_time", n_t == L, info=dict(n_t=n_t, L=L))
    if n_t != L:
        return
    tol = 64 * spans.EPS64 * 64      # integrate(t) stops within 32*eps of its target
    c.check("c18.t_eval_times_are_exactly_the_requested_ones", c.all([c.any([c.le(absval(c, res.t[k] - te), tol) for te in t_eval]) for k in range(L)] +
                                                                       [c.any([c.le(absval(c, res.t[k] - te), tol) for k in range(L)]) for te in t_eval]))
    c.check("c18.t_eval_times_ordered_along_integration", c.all([c.le(0, sgn * (res.t[k + 1] - res.t[k]) + tol, 64) for k in range(L - 1)]))
    # with multiplicities: the k-th returned time is the k-th requested time in the order of integration (insertion sort: forks on comparisons)
    expected = []
    for te in t_eval:
        pos = 0
        while pos < len(expected) and bool(sgn * (expected[pos] - te) <= 0):
            pos += 1
        expected.insert(pos, te)
    c.check("c18.t_eval_kth_time_is_kth_requested_time_in_integration_order", c.all([c.le(absval(c, res.t[k] - expected[k]), tol) for k in range(L)]))
    cols = []
    cur_ok = True
    for k in range(L):
        st, r = run(tw.integrate, expected[k], callback=cbs)
        if st != "ok":
            cur_ok = False
            break
        cols.append(_eqv(c, res.y[..., k], tw.y[-1]))
    if cur_ok:
        c.check("c18.t_eval_columns_equal_object_api_states", c.all(cols))


def _min(c, a, b):
    if c.symbolic:
        from srx import core
        return core.sym_min(a, b)
    return min(a, b)
