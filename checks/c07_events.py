"""C07 - reported events are genuine, correctly located, ordered and unique (parts A and B of the event decomposition)."""
from __future__ import annotations

import itertools

import numpy as np

from . import events_common as EC
from .common import run, absval, flat, patched

PROPERTY = "C07"
LEVEL = "other"
EXPLANATION = (
    "Assume/guarantee decomposition.  (A) The REAL handle_events is executed in isolation on a symbolic step [t_prev, t_prev + w] "
    "(w != 0 of either sign), 1-3 event functions g_i = alpha_i*(y - r_i) along a symbolic linear trajectory (alpha_i, r_i solver "
    "variables; directions -1/0/+1 and terminal flags enumerated), with differential_system.root_finder replaced by the bracket_root "
    "contract stub (arbitrary point of the closed bracket, arbitrary success).  z3 decides the guarantee: every returned event had "
    "success, lies in the bracket, within sqrt(eps)*|w| of the true root, crosses in a requested direction along the direction of "
    "integration; the list is sorted by sign(w)*root, cut after the first terminal event, terminate set iff one is included.  "
    "(B) The REAL event section of OdeSystem.integrate (true_positive filter, state lookup through the real DenseOutput, duplicate "
    "suppression, buffer growth, roll-back) runs with t0, tf, dt0 symbolic and handle_events replaced by an oracle returning an "
    "ARBITRARY output satisfying exactly guarantee (A): every recorded (t_e, y_e, ev) was reported by the detector, lies inside its "
    "step, y_e equals that step's interpolant at t_e, events are in integration order and no crossing is recorded twice "
    "(same event within eps^0.7).  (C) That the root finder locates the crossing is C14.")
ASSUMPTIONS = [
    "real arithmetic; (B): |tf-t0| <= N*|dt0|, 1/64 <= |dt0| <= 256, |t0|,|tf| <= 64, at most 3 detector reports per run",
    "(A): bracket_root stub for differential_system.root_finder; trajectory linear in t, event functions affine in the state (degree-2 trajectories in the thorough tier)",
    "(B): events oracle for differential_system.handle_events constrained only by guarantee (A); congruent uninterpreted rhs",
]
BOUNDS = {"quick": dict(A="<= 2 events", B="N=2 steps, <= 2 events"), "thorough": dict(A="<= 3 events", B="N=3 steps, <= 2 events")}
OUTSIDE = ["distance of the event to a root of the EXACT trajectory (needs the integrator's global error)",
           "crossings where the step interpolant is not monotone between the sampled offsets"]

SQRT_EPS = (4 * float(np.finfo(np.float64).eps)) ** 0.5


def handle_instances(tier, prop):
    out = []
    quick = tier == "quick"
    b = dict(wall_s=70 if quick else 600, max_paths=1500 if quick else 20000)
    for E in ((1, 2) if quick else (1, 2, 3)):
        dirs = list(itertools.product((-1, 0, 1), repeat=E))
        terms = list(itertools.product((False, True), repeat=E))
        if quick and E == 2:
            dirs = [(0, 0), (1, -1), (-1, 0), (1, 1)]
        if E == 3:
            dirs = [(0, 0, 0), (1, -1, 0), (-1, 1, 1)]
            terms = [(False, False, False), (False, True, False), (True, False, True)]
        for d in dirs:
            for tm in terms:
                for mode in ("arbitrary", "exact"):
                    out.append(dict(id="handle-E%d-d%s-t%s-%s" % (E, "".join("m0p"[x + 1] for x in d), "".join("T" if x else "n" for x in tm), mode),
                                    kind="handle", E=E, dirs=list(d), terms=list(tm), mode=mode, budget=b))
    # one event whose function is QUADRATIC along the trajectory (two true roots anywhere): soundness near either root
    if prop == "C07":
        for d in ((0,) if quick else (0, 1, -1)):
            out.append(dict(id="handle-quad-d%s" % "m0p"[d + 1], kind="handle", E=1, dirs=[d], terms=[False], mode="arbitrary", quad=True, budget=b))
    # the step contributes SEVERAL interpolants to a REAL DenseOutput (what Richardson wrappers produce), preceded by the piece of an
    # earlier step: kink at t_prev + kappa*w, slope 1 before it and m2 after it; every evaluation must use the piece containing its time
    if prop in ("C07", "C08"):
        kms = [("1/4", "2")] if quick else [("1/4", "2"), ("3/4", "2"), ("1/2", "1/4"), ("1/4", "-1/2"), ("3/4", "-2")]
        for kappa, m2 in kms:
            for d in ((0, 1) if quick else (0, 1, -1)):
                for mode in ("arbitrary", "exact"):
                    out.append(dict(id="handle-pieces-k%s-m%s-d%s-%s" % (kappa.replace("/", "_"), m2.replace("/", "_"), "m0p"[d + 1], mode), kind="handle", E=1,
                                    dirs=[d], terms=[False], mode=mode, pieces=dict(kappa=kappa, m2=m2), budget=b))
    return out


def integrate_instances(tier, prop):
    out = []
    quick = tier == "quick"
    b = dict(wall_s=75 if quick else 600, max_paths=2500 if quick else 40000)
    N = 2 if quick else 3
    combos = {
        "C07": [("euler", "n", True), ("euler", "nn", True), ("rk4", "nn", True), ("euler", "nn", False)],
        "C08": [("euler", "n", False), ("euler", "nn", False), ("euler", "nn", True), ("sympl_euler", "nn", False)],
        "C09": [("euler", "T", True), ("euler", "nT", True), ("euler", "TT", True), ("rk4", "nT", True), ("euler", "nT", False), ("sympl_euler", "T", True)],
    }[prop]
    if not quick:
        combos = combos + [("dopri45", combos[0][1], True), ("midpoint", combos[1][1] if len(combos) > 1 else combos[0][1], True)]
    for fam, evs, dense in combos:
        out.append(dict(id="integrate-%s-%s-%s-N%d" % (fam, evs, "dense" if dense else "nodense", N), kind="integrate", family=fam, events=list(evs),
                        dense=dense, N=N, max_reports=3, budget=b))
    # end-to-end cross-checks: real handle_events + real brentsrootvec inside integrate, time event alpha*(t - r)
    alphas = [1.0, -1000.0] if quick else [1.0, -1.0, 1e-3, 1000.0, -1e6]
    for al in alphas:
        for dense in ((True,) if quick else (True, False)):
            for direction in ((0,) if quick else (0, 1, -1)):
                if prop == "C09":
                    out.append(dict(id="e2e-euler-terminal-a%g-d%d-%s" % (al, direction, "dense" if dense else "nodense"), kind="e2e", family="euler", alpha=al,
                                    dense=dense, direction=direction, terminal=True, budget=b))
                else:
                    out.append(dict(id="e2e-euler-a%g-d%d-%s" % (al, direction, "dense" if dense else "nodense"), kind="e2e", family="euler", alpha=al,
                                    dense=dense, direction=direction, budget=b))
    if prop == "C07":
        # two steps, a SHALLOW time event (|slope| = 1e-6) crossing within 1e-9 of the boundary between them, real detector and root finder
        for al in ((1e-6,) if quick else (1e-6, -1e-6, 1e-3)):
            out.append(dict(id="e2e-euler-a%g-root-near-inner-boundary" % al, kind="e2e", family="euler", alpha=al, dense=True, direction=0,
                            root_near_inner_boundary=True, budget=b))
    if prop == "C07":
        for dense in (True, False):
            out.append(dict(id="integrate-euler-n-%s-N2-two-calls" % ("dense" if dense else "nodense"), kind="integrate", family="euler", events=["n"], dense=dense,
                            N=2, max_reports=3, two_calls=True, budget=b))
    if prop in ("C07", "C08"):
        # forward without events, then back to the start time with events
        for dense in (True, False):
            out.append(dict(id="integrate-euler-n-%s-N2-reversal" % ("dense" if dense else "nodense"), kind="integrate", family="euler", events=["n"], dense=dense, N=2,
                            max_reports=2, reversal=True, budget=b))
    if prop in ("C07", "C08"):
        # two calls; between them the user changes the direction attribute of the same event function object
        out.append(dict(id="integrate-euler-n-dense-N2-two-calls-flip-direction", kind="integrate", family="euler", events=["n"], dense=True, N=2,
                        max_reports=2, two_calls=True, flip_direction=True, budget=b))
    if prop == "C08":
        # REAL detector and root finder, two calls; the event reads its level from the constants, which are replaced between the calls
        for al in ((1.0,) if quick else (1.0, -1000.0, 1e-3)):
            for dense in (True, False):
                out.append(dict(id="e2e-euler-a%g-%s-level-changed-between-calls" % (al, "dense" if dense else "nodense"), kind="e2e", family="euler", alpha=al,
                                dense=dense, level_change_two_calls=True, budget=b))
    if prop == "C08":
        # three steps with dense_output=False: from the third step on the interpolants of old steps have been pruned
        out.append(dict(id="integrate-euler-n-nodense-N3", kind="integrate", family="euler", events=["n"], dense=False, N=3, max_reports=2, budget=b))
    if prop in ("C08", "C09"):
        # the event search of one step raises, integrate() is simply called again: the step must be examined after all
        evs = "n" if prop == "C08" else "T"
        for k in ((1,) if quick else (0, 1, 2)):
            for dense in (True, False):
                out.append(dict(id="integrate-euler-%s-%s-N2-detector-fault%d" % (evs, "dense" if dense else "nodense", k), kind="integrate", family="euler",
                                events=[evs], dense=dense, N=2, max_reports=2, fault_call=k, budget=b))
    if prop == "C09":
        out.append(dict(id="integrate-euler-nT-dense-N2-callback-swaps-constants", kind="integrate", family="euler", events=["n", "T"], dense=True, N=2,
                        max_reports=2, swap_constants=True, budget=b))
        # two calls; between them the user flips is_terminal on the same event function object (non-terminal -> terminal and back)
        for evs in ("n", "T"):
            out.append(dict(id="integrate-euler-%s-dense-N2-two-calls-flip-terminal" % evs, kind="integrate", family="euler", events=[evs], dense=True, N=2,
                            max_reports=2, two_calls=True, flip_terminal=True, budget=b))
        # stop at a terminal event, continue WITH the same events (a non-terminal one may share the root of the next stop)
        out.append(dict(id="integrate-euler-nT-dense-N2-continue-with-events", kind="integrate", family="euler", events=["n", "T"], dense=True, N=2,
                        max_reports=2, continue_with_events=True, budget=b))
        out.append(dict(id="integrate-euler-T-infinite-tf", kind="integrate", family="euler", events=["T"], dense=True, N=2, infinite_tf=True, max_reports=2, budget=b))
        out.append(dict(id="integrate-euler-T-minus-infinite-tf", kind="integrate", family="euler", events=["T"], dense=True, N=2, infinite_tf="neg", max_reports=2, budget=b))
    return out


def instances(tier):
    return handle_instances(tier, "C07") + integrate_instances(tier, "C07")


def scenario(c, inst):
    if inst["kind"] == "handle":
        return handle_scenario(c, inst, {"C07"})
    if inst["kind"] == "e2e":
        return EC.scenario_e2e(c, inst, {"C07"})
    return EC.scenario(c, inst, {"C07"})


def pieces_sol(c, ds, t_prev, w, kappa, m2):
    """REAL DenseOutput holding three REAL cubic Hermite pieces of a continuous piecewise-linear trajectory: the previous step
    [t_prev - w, t_prev] (slope 3), then the step under examination in two pieces: slope 1 up to t_k = t_prev + kappa*w, slope m2 after."""
    from desolver.utilities.interpolation import CubicHermiteInterp
    t_k = t_prev + kappa * w
    t_next = t_prev + w
    sol = ds.DenseOutput(None, None)

    def lin(ta, tb, ya, slope):
        one = c.array([1 + 0 * ta])
        return CubicHermiteInterp(ta, tb, c.array([ya]), c.array([ya + slope * (tb - ta)]), slope * one, slope * one)
    sol.add_interpolant(t_prev, lin(t_prev - w, t_prev, t_prev - 3 * w, 3))
    sol.add_interpolant(t_k, lin(t_prev, t_k, t_prev, 1))
    sol.add_interpolant(t_next, lin(t_k, t_next, t_k, m2))
    return sol, t_k


class LinearSol:
    """trajectory y(t) = [t] (1-D), with grad = [1]"""

    def __init__(self, c):
        self.c = c

    def __call__(self, t):
        return self.c.array([t])

    def grad(self, t):
        return self.c.array([1 + 0 * t])


def handle_scenario(c, inst, props):
    import desolver.differential_system as ds
    E = inst["E"]
    t_prev = c.real("t_prev")
    w = c.real("w")
    c.assume(w != 0)
    c.assume(absval(c, w) >= 1.0 / 64)
    c.assume(absval(c, w) <= 256)
    c.assume(t_prev <= 64)
    c.assume(t_prev >= -64)
    t_next = t_prev + w
    alphas, roots_true, evs = [], [], []
    for i in range(E):
        al = c.real("alpha%d" % i)
        r = c.real("r%d" % i)
        c.assume(al != 0)
        c.assume(absval(c, al) <= 2.0 ** 20)
        c.assume(absval(c, al) >= 2.0 ** -20)
        c.assume(absval(c, r) <= 512)
        alphas.append(al)
        roots_true.append(r)

        r2 = None
        if inst.get("pieces"):
            # g = alpha*(y(t) - r) along the kinked trajectory y = t (before t_k), y = t_k + m2*(t - t_k) (after): the crossing
            # on the first piece is at t = r, the one on the second piece at t = t_k + (r - t_k)/m2
            from fractions import Fraction
            kappa, m2 = Fraction(inst["pieces"]["kappa"]), Fraction(inst["pieces"]["m2"])
            t_k_sym = t_prev + kappa * w
            r2 = t_k_sym + (r - t_k_sym) / m2
        if inst.get("quad"):
            r2 = c.real("s%d" % i)
            c.assume(absval(c, r2) <= 512)
            c.assume(absval(c, r - r2) >= 1.0 / 64)

        def mk(al, r, r2=r2):
            def ev(t, y, **kw):
                if r2 is not None and inst.get("quad"):
                    return al * (y[0] - r) * (y[0] - r2)
                return al * (y[0] - r)
            return ev
        e = mk(al, r)
        second_roots = locals().get("second_roots", [])
        second_roots.append(r2)
        e.is_terminal = inst["terms"][i]
        e.direction = inst["dirs"][i]
        evs.append(e)
    events, is_terminal, direction, last_occ, requires_dstate = ds.prepare_events(evs, np.zeros(1))
    stub_log = {}

    def crossings(i):
        """true crossings of event i along the trajectory: (time, condition under which it exists, slope of g along t there)"""
        if inst.get("pieces"):
            r_ = roots_true[i]
            r0_ = t_prev + (r_ - t_prev) / 3          # crossing on the piece of the PREVIOUS step (slope 3), at or before t_prev
            return [(r_, (r_ - t_prev) * (t_k_sym - r_) >= 0, alphas[i]),
                    (second_roots[i], (second_roots[i] - t_k_sym) * w >= 0, alphas[i] * m2),      # the last piece also answers queries beyond t_next
                    (r0_, (r0_ - t_prev) * w <= 0, alphas[i] * 3)]
        if inst.get("quad"):
            return [(roots_true[i], True, alphas[i] * (roots_true[i] - second_roots[i])), (second_roots[i], True, alphas[i] * (second_roots[i] - roots_true[i]))]
        return [(roots_true[i], True, alphas[i])]

    def root_stub(f, bounds, tol=None, verbose=False, return_interval=False, accepts_mask=False):
        rs, ss = [], []
        for i in range(E):
            if inst["mode"] == "exact" and inst.get("pieces"):
                # an exactly located crossing of the kinked trajectory: the first one (in piece order) that is strictly inside the step
                # and crosses in a requested direction
                hit = None
                for (tc, valid, slope) in crossings(i):
                    if bool(valid) and bool((tc - t_prev) * (t_next - tc) > 0) and (inst["dirs"][i] == 0 or bool(slope * w * inst["dirs"][i] > 0)):
                        hit = tc
                        break
                if hit is not None:
                    rs.append(hit)
                    ss.append(True)
                    stub_log.setdefault("exact_hit", {})[i] = hit
                    continue
            elif inst["mode"] == "exact":
                inside = (roots_true[i] - t_prev) * (t_next - roots_true[i]) > 0
                if bool(inside):
                    rs.append(roots_true[i])
                    ss.append(True)
                    continue
            lam = c.real("lam%d" % i)
            c.assume(lam >= 0)
            c.assume(lam <= 1)
            rs.append(t_prev + lam * w)
            ss.append(bool(c.real("succ%d" % i) > 0))
        stub_log["roots"], stub_log["succ"] = rs, ss
        return c.array(rs), np.array(ss, dtype=bool)
    sol = LinearSol(c)
    if inst.get("pieces"):
        sol, t_k = pieces_sol(c, ds, t_prev, w, kappa, m2)
    with patched(ds, "root_finder", root_stub):
        st, r = run(ds.handle_events, (sol, t_prev, t_next), events, {}, direction, is_terminal, (requires_dstate,))
    if st != "ok":
        c.check("c07.A.handle_events_returns", False, info=repr(r))
        return
    active, roots, terminate, revs = r
    active = [int(x) for x in flat(c, active)] if len(active) else []
    roots = flat(c, roots) if len(active) else []
    c.case()
    c.note("returned", active)
    sw = 1 if bool(w > 0) else -1
    tol = SQRT_EPS * absval(c, w) * 1.001
    if "C07" in props:
        c.check("c07.A.returned_events_had_success", all(stub_log["succ"][i] for i in active))
        c.check("c07.A.returned_roots_are_finder_roots_in_bracket",
                c.all([c.all([c.eq(roots[j], stub_log["roots"][i]), c.le(0, (roots[j] - t_prev) * (t_next - roots[j]), 64)]) for j, i in enumerate(active)]))
        def near_some_root(j, i):
            return c.any([c.all([valid, c.le(absval(c, roots[j] - tc), tol, 1)]) for (tc, valid, _s) in crossings(i)])
        c.check("c07.A.returned_root_within_sqrt_eps_of_true_root", c.all([near_some_root(j, i) for j, i in enumerate(active)]))
        okd = []
        for j, i in enumerate(active):
            d = inst["dirs"][i]
            if inst.get("pieces"):
                if d != 0:
                    okd.append(c.any([c.all([valid, c.le(absval(c, roots[j] - tc), tol, 1), c.lt(0, slope * w * d)]) for (tc, valid, slope) in crossings(i)]))
                continue
            if inst.get("quad"):
                # slope of g along the trajectory at the nearer root: alpha*(r - s) at r, alpha*(s - r) at s
                r_, s_ = roots_true[i], second_roots[i]
                at_r = c.le(absval(c, roots[j] - r_), tol, 1)
                slope = alphas[i] * (r_ - s_)
                if d > 0:
                    okd.append(c.any([c.all([at_r, c.lt(0, slope * w)]), c.all([~at_r if c.symbolic else (not at_r), c.lt(slope * w, 0)])]))
                elif d < 0:
                    okd.append(c.any([c.all([at_r, c.lt(slope * w, 0)]), c.all([~at_r if c.symbolic else (not at_r), c.lt(0, slope * w)])]))
                continue
            if d > 0:
                okd.append(c.lt(0, alphas[i] * w))
            elif d < 0:
                okd.append(c.lt(alphas[i] * w, 0))
        c.check("c07.A.crossing_direction_compatible_with_request", c.all(okd))
        c.check("c07.A.sorted_along_integration_direction", c.all([c.le(0, sw * (roots[j + 1] - roots[j]), 64) for j in range(len(active) - 1)]))
        terms_ret = [inst["terms"][i] for i in active]
        c.check("c07.A.cut_after_first_terminal_event", not any(terms_ret[:-1]) and bool(terminate) == (len(terms_ret) > 0 and terms_ret[-1]), info=dict(terms=terms_ret, terminate=bool(terminate)))
        c.check("c07.A.returned_event_objects_match_indices", all(revs[j] is events[i] for j, i in enumerate(active)))
    if "C09" in props:
        terms_ret = [inst["terms"][i] for i in active]
        c.check("c09.A.only_events_up_to_the_first_terminal_one_are_returned", not any(terms_ret[:-1]) and bool(terminate) == (len(terms_ret) > 0 and terms_ret[-1]),
                info=dict(terms=terms_ret, terminate=bool(terminate)))
        c.check("c09.A.returned_in_integration_order", c.all([c.le(0, sw * (roots[j + 1] - roots[j]), 64) for j in range(len(active) - 1)]))
        if inst["mode"] == "exact":
            # the earliest (along the direction of integration) located terminal crossing ends the list; nothing beyond it is returned
            tcands = []
            for i in range(E):
                if inst["terms"][i] and bool((roots_true[i] - t_prev) * (t_next - roots_true[i]) > 0) and (inst["dirs"][i] == 0 or bool(alphas[i] * w * inst["dirs"][i] > 0)):
                    tcands.append(i)
            if tcands:
                c.check("c09.A.terminates_when_a_terminal_crossing_is_located", bool(terminate) and len(active) > 0, info=dict(active=active))
                if terminate and active:
                    last = roots[-1]
                    c.check("c09.A.stops_at_the_earliest_terminal_crossing", c.all([c.le(0, sw * (roots_true[i] - last), 64) for i in tcands]))
                    c.check("c09.A.nothing_beyond_the_terminal_crossing_is_returned", c.all([c.le(0, sw * (last - roots[j]), 64) for j in range(len(active))]))
    if "C08" in props and inst["mode"] == "exact":
        # completeness: an exactly located, strictly interior crossing in a requested direction is returned, unless cut by an earlier terminal event
        term_roots = [roots[j] for j, i in enumerate(active) if inst["terms"][i]]
        for i in range(E):
            if inst.get("pieces"):
                if i in stub_log.get("exact_hit", {}):
                    c.check("c08.A.located_interior_crossing_is_returned", i in active, info=dict(i=i, active=active, dirs=inst["dirs"], pieces=inst["pieces"]))
                continue
            inside = bool((roots_true[i] - t_prev) * (t_next - roots_true[i]) > 0)
            d = inst["dirs"][i]
            compatible = d == 0 or bool(alphas[i] * w * d > 0)
            if not (inside and compatible):
                continue
            cut = any(bool(sw * (roots_true[i] - tr) > 0) for tr in term_roots) or \
                any(bool(roots_true[i] - tr == 0) and i not in active for tr in term_roots)
            if cut:
                continue
            c.check("c08.A.located_interior_crossing_is_returned", i in active, info=dict(i=i, active=active, dirs=inst["dirs"], terms=inst["terms"]))
