"""C12 - a failure leaves a consistent, resumable prefix of the trajectory (crash-point enumeration)."""
from __future__ import annotations

import numpy as np

from . import spans
from .common import run, absval, flat, StepCap, FreshRhs, FreshRhsWithJac, InjectedFault, patched

PROPERTY = "C12"
LEVEL = "fault_enumeration"
EXPLANATION = (
    "Crash points are enumerated exhaustively within the bound: for every index k of a right-hand-side evaluation (resp. callback "
    "invocation) that a run of <= N steps can make, an instance injects an exception at exactly that evaluation; t0, tf, dt0 stay "
    "arbitrary real solver variables, so each instance covers every span/direction/step size, and all feasible symbolic paths of "
    "the real OdeSystem.integrate + integrator are explored.  On each path z3 decides: the error raised is FailedIntegration whose "
    "__cause__ is the injected exception (KeyboardInterrupt propagates as itself); status/success report it; t and y are exactly "
    "the rows of the fault-free twin run (same symbolic inputs, congruent uninterpreted rhs) accepted before the fault - paired, "
    "monotone; dense output has exactly one piece per recorded step with matching end times; a second integrate() (fault removed) "
    "reaches tf with rows equal to the twin's (term equality, fixed-step families) and dense-output end slopes equal to f at the "
    "recorded states; reset() restores (t0, y0), no events, empty dense output, dt0, nfev 0, status 0, and the next run equals the twin's.")
ASSUMPTIONS = [
    "event-function faults: the real handle_events runs with differential_system.root_finder replaced by the bracket_root contract stub; the event function raises at its k-th evaluation",
    "real arithmetic; |tf-t0| <= N*|dt0|, 1/64 <= |dt0| <= 256, |t0|,|tf| <= 64",
    "rhs = uninterpreted function of (t, y) with syntactic congruence (same argument terms => same value) shared by the faulting system and its fault-free twin",
    "adaptive family: ctrl contract stub (<= 1 rejection); implicit family: verdict_root contract stub",
]
BOUNDS = {"quick": dict(N=2, faults="1 (every rhs call index, callback invocations 1..3)"),
          "thorough": dict(N=3, faults="1 and 2 successive faults")}
OUTSIDE = ["faults inside compiled sub-solvers", "IEEE finiteness of stored values"]

KMAX = {"euler": 8, "rk4": 17, "sympl_euler": 12, "dopri45": 24, "backward_euler": 10, "heun_euler": 12}


def instances(tier):
    out = []
    quick = tier == "quick"
    N = 2 if quick else 3
    b = dict(wall_s=70 if quick else 240, max_paths=600 if quick else 20000)      # (thorough: 314 instances; 600 s each took 1.9 h end-to-end)
    fams = ["euler", "rk4", "sympl_euler", "dopri45", "backward_euler"]
    for fam in fams:
        kmax = KMAX[fam] if quick else int(KMAX[fam] * 1.5)
        ks = list(range(1, kmax + 1))
        if quick:
            ks = {"euler": ks, "rk4": [1, 2, 5, 6, 7, 11], "sympl_euler": [1, 2, 3, 4, 5, 8], "dopri45": [1, 2, 8, 9, 16],
                  "backward_euler": [1, 2, 3, 4, 6]}[fam]
        for k in ks:
            bb = dict(b, wall_s=35) if quick and fam == "dopri45" else b
            out.append(dict(id="rhs-fault-%s-k%02d" % (fam, k), family=fam, N=N if fam not in ("dopri45", "backward_euler") else 2, where="rhs", k=k, exc="RuntimeError", budget=bb))
        for exc in ("KeyboardInterrupt", "Custom", "ValueError", "ZeroDivisionError") + (() if quick else ("FloatingPointError", "OverflowError", "KeyError")):
            for k in ((2,) if quick and fam != "euler" else (2, 4)):
                bb = dict(b, wall_s=35) if quick and fam == "dopri45" else b
                out.append(dict(id="rhs-fault-%s-k%02d-%s" % (fam, k, exc), family=fam, N=2, where="rhs", k=k, exc=exc, budget=bb))
        for j in ((1, 2) if quick else (1, 2, 3)):
            bb = dict(b, wall_s=35) if quick and fam == "dopri45" else b
            out.append(dict(id="callback-fault-%s-j%d" % (fam, j), family=fam, N=2, where="callback", k=j, exc="RuntimeError", budget=bb))
    for fam in (("euler",) if quick else ("euler", "rk4", "sympl_euler")):
        for k in ((1, 2, 5, 9, 10, 14) if quick else tuple(range(1, 20))):
            for dense in (True, False):
                out.append(dict(id="event-fault-%s-k%02d-%s" % (fam, k, "dense" if dense else "nodense"), family=fam, N=2, where="event", k=k, exc="RuntimeError",
                                dense=dense, budget=b))
    # the interrupt arrives while an event function is being evaluated (Ctrl-C during the event search): it propagates as itself and the same
    # prefix / dense-output / resume guarantees hold
    for k in ((2, 10) if quick else (1, 2, 5, 9, 10, 14)):
        for dense in (True, False):
            out.append(dict(id="event-interrupt-euler-k%02d-%s" % (k, "dense" if dense else "nodense"), family="euler", N=2, where="event", k=k, exc="KeyboardInterrupt",
                            dense=dense, budget=b))
    # a terminal event is found and the rhs raises while the step is re-taken up to it (events oracle; real event section of integrate)
    for fam in (("euler",) if quick else ("euler", "rk4")):
        for j in ((0,) if quick else (0, 1, 2)):
            for dense in (True, False):
                out.append(dict(id="landing-fault-%s-j%d-%s" % (fam, j, "dense" if dense else "nodense"), family=fam, N=2, where="landing", k=j, exc="RuntimeError",
                                events=["T"], dense=dense, max_reports=2, kind="integrate", landing_fault=j, budget=b))
    # reset() right after the failure (no resume in between) - in particular after a failure in the very first step
    for fam in ("euler", "rk4", "sympl_euler", "dopri45"):
        for k in ((2,) if quick else (1, 2, 3, 6)):
            out.append(dict(id="rhs-fault-%s-k%02d-reset-directly" % (fam, k), family=fam, N=2, where="rhs", k=k, exc="RuntimeError", reset_directly=True, budget=b))
    # the rhs leaves its domain: it RETURNS NaN at its k-th evaluation (no exception).  Garbage in, garbage out for that run - but
    # reset() must still restore a system that reproduces a fresh one (nothing non-finite may survive inside the integrator object)
    for fam in ("euler", "rk4", "sympl_euler"):
        for k in ((2,) if quick else (1, 2, 3, 5)):
            out.append(dict(id="rhs-nan-%s-k%02d" % (fam, k), family=fam, N=2, where="nan", k=k, exc="RuntimeError", budget=b))
    # the stage solver diverges (non-finite iterate, success False) at its k-th solve; every solve started from a finite guess succeeds
    for fam in ("backward_euler",) if quick else ("backward_euler", "implicit_midpoint"):
        for k in ((0, 1) if quick else (0, 1, 2)):
            out.append(dict(id="solver-diverges-%s-k%d" % (fam, k), family=fam, N=2, where="diverge", k=k, exc="RuntimeError", budget=b))
    # bit-precise corner (QF_FP): a step (t, h) whose two half steps do not land on fl(t+h); Richardson wrappers store the sub-division's
    # pieces, so their last end time differs from the recorded time by one ulp - the real code is run on the solver's witness
    for direction in (1, -1):
        for side in ("beyond", "short"):
            out.append(dict(id="fp-richardson-halfsteps-%s-%s" % ("fwd" if direction > 0 else "bwd", side), family="euler", N=2, where="fp_richardson", k=0,
                            exc="RuntimeError", direction=direction, side=side, budget=dict(wall_s=90, max_paths=4)))
    if not quick:
        for fam in ("euler", "rk4", "sympl_euler"):
            for k in (2, 3, 5):
                for k2 in (1, 2, 3):
                    out.append(dict(id="two-faults-%s-k%d-k%d" % (fam, k, k2), family=fam, N=3, where="rhs", k=k, k2=k2, exc="RuntimeError", budget=b))
    return out


class Custom(Exception):
    pass


def _mkexc(kind):
    if kind == "RuntimeError":
        return RuntimeError("injected")
    if kind == "ValueError":
        return ValueError("injected")
    if kind == "KeyboardInterrupt":
        return KeyboardInterrupt("injected")
    if kind in ("ZeroDivisionError", "FloatingPointError", "OverflowError", "KeyError"):
        return {"ZeroDivisionError": ZeroDivisionError, "FloatingPointError": FloatingPointError, "OverflowError": OverflowError, "KeyError": KeyError}[kind]("injected")
    return Custom("injected")


def _eqv(c, a, b):
    fa, fb = flat(c, a), flat(c, b)
    return len(fa) == len(fb) and c.all([c.eq(u, v) for u, v in zip(fa, fb)])


def _rows_equal(c, a, b, n):
    return c.all([c.all([c.eq(a.t[i], b.t[i]), _eqv(c, a.y[i], b.y[i])]) for i in range(n)])


def _run_catching(fn, *a, **kw):
    """like run(), but also reports KeyboardInterrupt (a BaseException that is not engine control flow)"""
    try:
        return run(fn, *a, **kw)
    except KeyboardInterrupt as e:
        return "kbd", e


def _fp_halfstep_witness(direction, side, timeout_s=60):
    """float64 (t, h): fl(fl(t + h/2) + h/2) lies beyond / short of fl(t + h) in the direction of integration"""
    import z3
    F = z3.Float64()
    rm = z3.RNE()
    t, h = z3.FP("t", F), z3.FP("h", F)
    half = z3.fpMul(rm, h, z3.FPVal(0.5, F))
    two = z3.fpAdd(rm, z3.fpAdd(rm, t, half), half)
    one = z3.fpAdd(rm, t, h)
    sol = z3.SolverFor("QF_FP")
    sol.set("timeout", int(timeout_s * 1000))
    sol.add(z3.fpGT(t, z3.FPVal(-2.0, F)), z3.fpLT(t, z3.FPVal(2.0, F)))
    if direction > 0:
        sol.add(z3.fpGT(h, z3.FPVal(1.0 / 64, F)), z3.fpLT(h, z3.FPVal(0.5, F)))
        sol.add(z3.fpGT(two, one) if side == "beyond" else z3.fpLT(two, one))
    else:
        sol.add(z3.fpLT(h, z3.FPVal(-1.0 / 64, F)), z3.fpGT(h, z3.FPVal(-0.5, F)))
        sol.add(z3.fpLT(two, one) if side == "beyond" else z3.fpGT(two, one))
    r = sol.check()
    if r != z3.sat:
        return str(r), None

    def val(x):
        bits = sol.model().eval(z3.fpToIEEEBV(x), model_completion=True).as_long()
        return float(np.array([bits], dtype=np.uint64).view(np.float64)[0])
    return "sat", (val(t), val(h))


def _fp_richardson_real_code(t0, h):
    """REAL float64 code: Richardson(Euler) with dense output on y' = 0 (every step accepted with the requested size), first step (t0, h),
    the rhs raises during the second step; then integrate() again.  Returns a record with the findings."""
    import warnings
    import desolver as de
    import desolver.integrators as I
    from desolver.exception_types import FailedIntegration
    calls = [0]
    fault = [None]

    def f(t, y, **kw):
        calls[0] += 1
        if fault[0] is not None and calls[0] >= fault[0]:
            raise RuntimeError("injected")
        return 0.0 * y
    out = dict(t0=t0, h=h, problems=[])
    with warnings.catch_warnings():
        warnings.simplefilter("ignore")
        a = de.OdeSystem(f, y0=np.array([1.0]), t=(t0, t0 + 8 * h), dt=h, dense_output=True, rtol=1e-6, atol=1e-6)
        a.method = I.generate_richardson_integrator(I.EulerSolver, richardson_iter=2)
        # find the number of rhs calls of the first step, then fault right after it
        cb_calls = []

        def cb(system):
            cb_calls.append(calls[0])
            if len(cb_calls) == 1:
                fault[0] = calls[0] + 2
        try:
            a.integrate(callback=cb)
            out["problems"].append("no failure raised")
            return out
        except FailedIntegration:
            pass
        fault[0] = None
        n = len(a.t)
        sol = a.sol
        pieces = len(sol.t_eval)
        out.update(rows_at_fault=n, pieces_at_fault=pieces, first_step=float(a.t[1] - a.t[0]) if n > 1 else None)
        per_step = pieces / max(1, n - 1)

        def covered(system):
            bad = []
            its = list(system.sol.y_interpolants)
            for i in range(len(system.t) - 1):
                lo, hi = sorted((float(system.t[i]), float(system.t[i + 1])))
                for q in (lo + 0.25 * (hi - lo), lo + 0.75 * (hi - lo)):
                    if not any(min(float(it.t0), float(it.t1)) <= q <= max(float(it.t0), float(it.t1)) for it in its):
                        bad.append((i, q))
            return bad
        if n < 2:
            out["problems"].append("no step recorded before the fault")
            return out
        if pieces != 2 * (n - 1):
            out["problems"].append("after the failed call: %d dense pieces for %d recorded steps (2 per step expected)" % (pieces, n - 1))
        if covered(a):
            out["problems"].append("after the failed call: recorded steps not covered by the dense output at %r" % (covered(a)[:2],))
        a.integrate()
        if len(a.sol.t_eval) != 2 * (len(a.t) - 1):
            out["problems"].append("after resuming: %d dense pieces for %d recorded steps" % (len(a.sol.t_eval), len(a.t) - 1))
        if covered(a):
            out["problems"].append("after resuming: recorded steps not covered by the dense output at %r" % (covered(a)[:2],))
    return out


def _fp_richardson(c, inst):
    from srx import core
    if c.symbolic:
        status, wit = _fp_halfstep_witness(inst["direction"], inst["side"])
        c.note("qf_fp_result", status)
        if status == "unknown":
            raise core.BudgetHit("qf_fp_unknown")
        if status == "unsat":
            c.check("c12.fp.richardson_pieces_survive_a_failure", True)
            return
        from fractions import Fraction
        for k, v in zip(("t", "h"), wit):
            c.assume(c.eq(c.real(k), Fraction(v)))
        t0, h = wit
    else:
        t0, h = float(c.real("t")), float(c.real("h"))
    rec = _fp_richardson_real_code(t0, h)
    c.note("real_code_float64", rec)
    c.check("c12.fp.richardson_pieces_survive_a_failure", not rec["problems"], info=dict(problems=rec["problems"][:3], t0=t0, h=h))


def scenario(c, inst):
    import desolver as de
    from desolver.exception_types import FailedIntegration
    if c.symbolic:
        c.ackermann = False
    if inst["where"] == "landing":
        from . import events_common as EC
        return EC.scenario(c, inst, {"C12"})
    if inst["where"] == "fp_richardson":
        return _fp_richardson(c, inst)
    if inst["where"] == "event":
        return _event_fault(c, inst)
    t0, tf, dt0 = c.real("t0"), c.real("tf"), c.real("dt0")
    span, adt = spans.input_assumptions(c, inst, t0, tf, dt0)
    fam = inst["family"]
    method, shape, kind = spans.FAMILIES[fam]
    cap = inst["N"] + 4
    cls = FreshRhsWithJac if kind == "implicit" else FreshRhs
    inst = dict(inst, max_redo=1)
    # ---- fault-free twin
    rhsB = cls(c, shape, name="f", mode="uf")
    st, built = run(spans.build_system, c, inst, t0, tf, dt0, True, rhsB)
    if st != "ok":
        c.check("c12.constructs", False, info=repr(built))
        return
    B, _, logB = built
    with spans.stubs_for(c, inst, logB["root"]):
        st, r = run(B.integrate, callback=[spans.cap_callback(c, cap, kind)])
    if st != "ok":
        return          # the fault-free run itself fails (adaptive FailedToMeetTolerances / step cap): outside this scenario
    nB = len(B.t)
    # ---- faulting system
    exc = _mkexc(inst["exc"])
    rhsA = cls(c, shape, name="f", mode="uf")
    cbstate = dict(n=0)
    if inst["where"] == "rhs":
        rhsA.fault_at = inst["k"]
        rhsA.fault_exc = exc
    if inst["where"] == "nan":
        rhsA.nan_at = inst["k"]

    def faulty_cb(system):
        cbstate["n"] += 1
        if inst["where"] == "callback" and cbstate["n"] == inst["k"] and not cbstate.get("off"):
            raise exc
    st, built = run(spans.build_system, c, inst, t0, tf, dt0, True, rhsA)
    if st != "ok":
        c.check("c12.constructs", False, info=repr(built))
        return
    A, _, logA = built
    if kind == "adaptive":
        # the twin and the faulting system must see the same controller verdicts: share the corr symbols by name
        pass
    if inst["where"] == "diverge":
        return _diverge(c, inst, A, logA, kind, cap, t0, tf)
    with spans.stubs_for(c, inst, logA["root"]):
        st, r = _run_catching(A.integrate, callback=[faulty_cb, spans.cap_callback(c, cap, kind)])
        if inst["where"] == "nan":
            if len(rhsA.calls) <= inst["k"]:
                c.note("outcome", "run ended before the NaN evaluation")
                return
            c.case()
            rhsA.nan_at = None
            st4, r4 = run(A.reset)
            c.check("c12.reset_runs", st4 == "ok", info=repr(r4))
            if st4 == "ok":
                st5, r5 = run(A.integrate, callback=[spans.cap_callback(c, cap, kind)])
                c.check("c12.run_after_nan_run_and_reset_equals_fresh_run", st5 == "ok" and len(A.t) == nB and _rows_equal(c, A, B, min(len(A.t), nB)),
                        info=dict(st=st5, nA=len(A.t), nB=nB, err=repr(r5)[:120] if st5 != "ok" else None))
            return
        fired = (inst["where"] == "rhs" and len(rhsA.calls) > inst["k"]) or (inst["where"] == "callback" and cbstate["n"] >= inst["k"])
        if not fired:
            c.note("outcome", "run ended before the crash point")
            return
        c.case()
        c.note("rows_at_fault", len(A.t))
        # (1) error type and cause
        if inst["exc"] == "ValueError" and st == "ok":
            # KNOWN finding (implicit schemes only since fix a48c06e): RungeKuttaIntegrator.__call__ catches ValueError around step()
            # (meant for the stage solver) and retries the step
            c.check("c12.valueerror_from_rhs_is_reported", False, info="integrate() returned normally although the rhs raised ValueError",
                    regions={"c12.valueerror_swallowed_by_retry": kind == "implicit"})
            return
        if inst["exc"] == "KeyboardInterrupt":
            c.check("c12.keyboard_interrupt_propagates_as_itself", st == "kbd" and r is exc, info=dict(st=st, r=repr(r)))
            c.check("c12.status_reports_interrupt", "KeyboardInterrupt" in A.integration_status and not A.success)
        else:
            c.check("c12.raises_FailedIntegration_with_cause", st == "exc" and isinstance(r, FailedIntegration) and r.__cause__ is exc,
                    info=dict(st=st, r=repr(r), cause=repr(getattr(r, "__cause__", None))))
            c.check("c12.status_reports_failure", "failed" in A.integration_status.lower() and not A.success, info=A.integration_status[:80])
        # (2) recorded rows = prefix of the fault-free run
        nA = len(A.t)
        c.check("c12.rows_paired", len(A.t) == len(A.y))
        if kind != "fixed":
            # controller verdicts / stage-solver roots of the two systems are independent symbols: compare structure only
            s = 1 if bool(tf - t0 > 0) else -1
            c.check("c12.prefix_monotone_from_t0", c.all([c.eq(A.t[0], t0)] + [c.lt(0, s * (A.t[i + 1] - A.t[i])) for i in range(nA - 1)]))
        else:
            c.check("c12.rows_are_prefix_of_fault_free_run", nA <= nB and _rows_equal(c, A, B, min(nA, nB)), info=dict(nA=nA, nB=nB))
        # (3) dense output covers exactly the recorded steps (pieces are stored in increasing time: reversed for backward runs)
        backward = bool(tf - t0 < 0)

        def step_order(lst):
            return list(lst)[::-1] if backward else list(lst)
        sol = A.sol
        pieces = 0 if sol is None or sol.t_eval is None else len(sol.t_eval)
        c.check("c12.dense_output_one_piece_per_recorded_step", pieces == nA - 1, info=dict(pieces=pieces, rows=nA))
        if pieces == nA - 1 and pieces > 0:
            c.check("c12.dense_output_piece_end_times_are_recorded_times",
                    c.all([c.eq(step_order(sol.t_eval)[i], A.t[i + 1]) for i in range(pieces)]))
        if inst.get("reset_directly"):
            # the caller gives up on the failed run: reset() right after the failure, whatever had (not) been recorded by then
            rhsA.fault_at = None
            cbstate["off"] = True
            st4, r4 = run(A.reset)
            c.check("c12.reset_runs", st4 == "ok", info=repr(r4))
            if st4 == "ok":
                sol = A.sol
                pristine = [len(A.t) == 1, len(A.y) == 1, len(A.events) == 0, A.nfev == 0,
                            A.integration_status == "Integration has not been run.", sol is not None and len(sol) == 0]
                c.check("c12.reset_right_after_the_failure_restores_pristine_observables", all(pristine), info=dict(flags=pristine, rows_at_fault=nA))
                c.check("c12.reset_restores_t0_y0_dt0", c.all([c.eq(A.t[0], t0), _eqv(c, A.y[0], B.y[0]), c.eq(absval(c, A.dt), adt), c.lt(0, A.dt * (tf - t0))]))
                if kind == "fixed":
                    st5, r5 = run(A.integrate, callback=[spans.cap_callback(c, cap, kind)])
                    c.check("c12.run_after_reset_equals_fresh_run", st5 == "ok" and len(A.t) == nB and _rows_equal(c, A, B, min(len(A.t), nB)) and spans.status_ok(A),
                            info=dict(st=st5, nA=len(A.t), nB=nB, status=A.integration_status[:50]))
            return
        # (4) resume
        rhsA.fault_at = None
        cbstate["off"] = True
        k2 = inst.get("k2")
        fits_second = True
        if k2 is not None:
            # (every integrate() call halves a step that exceeds the remaining distance when it starts - also the call that faults again)
            fits_second = bool(absval(c, A.dt) <= absval(c, tf - A.t[-1]))
            rhsA.fault_at = len(rhsA.calls) + k2
            rhsA.fault_exc = RuntimeError("second injected")      # (a ValueError would be swallowed by the retry: known finding, covered by the -ValueError instances)
            st2, r2 = _run_catching(A.integrate, callback=[spans.cap_callback(c, cap, kind)])
            if len(rhsA.calls) > rhsA.fault_at:
                c.check("c12.second_fault_raises_FailedIntegration", st2 == "exc" and isinstance(r2, FailedIntegration) and r2.__cause__ is rhsA.fault_exc)
                n2 = len(A.t)
                if kind != "adaptive" and fits_second:
                    c.check("c12.rows_are_prefix_after_second_fault", n2 <= nB and _rows_equal(c, A, B, min(n2, nB)))
            rhsA.fault_at = None
        n_before = len(A.t)
        snap_t, snap_y = list(A.t), [list(flat(c, A.y[i])) for i in range(n_before)]
        remaining = absval(c, tf - A.t[-1])
        # integrate() halves a step that exceeds the remaining distance at the START of a call, so a resumed run only reproduces the
        # uninterrupted rows when the current step still fits (C13: 'within tolerance otherwise')
        fits = bool(absval(c, A.dt) <= remaining) and fits_second
        st3, r3 = _run_catching(A.integrate, callback=[spans.cap_callback(c, cap, kind)])
        if st3 != "ok":
            cause = getattr(r3, "__cause__", None)
            if kind == "adaptive" or isinstance(cause, StepCap) and kind != "fixed":
                c.note("resume", "legitimate failure of the adaptive/implicit continuation")
            else:
                c.check("c12.resume_reaches_target", False, info=repr(r3) + " / " + repr(cause))
        else:
            s = 1 if bool(tf - t0 > 0) else -1
            c.check("c12.resume_keeps_recorded_prefix", len(A.t) >= n_before and
                    c.all([c.all([c.eq(A.t[i], snap_t[i])] + [c.eq(u, v) for u, v in zip(flat(c, A.y[i]), snap_y[i])]) for i in range(n_before)]))
            c.check("c12.resume_monotone_to_target", c.all([c.lt(0, s * (A.t[i + 1] - A.t[i])) for i in range(len(A.t) - 1)] +
                                                           [c.le(absval(c, A.t[-1] - tf), 64 * spans.EPS64 * 64)]))
            same = kind == "fixed" and fits
            if same:
                c.check("c12.resume_rows_equal_fault_free_run", len(A.t) == nB and _rows_equal(c, A, B, min(len(A.t), nB)), info=dict(nA=len(A.t), nB=nB))
            sol = A.sol
            pieces = 0 if sol is None or sol.t_eval is None else len(sol.t_eval)
            c.check("c12.resume_dense_output_one_piece_per_step", pieces == len(A.t) - 1, info=dict(pieces=pieces, rows=len(A.t)))
            if pieces == len(A.t) - 1 and pieces > 0:
                c.check("c12.resume_dense_output_piece_end_times_are_recorded_times",
                        c.all([c.eq(step_order(sol.t_eval)[i], A.t[i + 1]) for i in range(pieces)]))
            if pieces == len(A.t) - 1 and pieces > 0:
                # every piece of the resumed run interpolates the recorded states with the slopes f(t_i, y_i) - for every family (the
                # rhs is a congruent uninterpreted function: a slope cached from an abandoned attempt is a different term)
                from .c06_dense import piece_checks
                piece_checks(c, "c12.resume.dense", A, cls(c, shape, name="f", mode="uf"), backward)
            if same and pieces == len(A.t) - 1 == len(B.sol.t_eval) and len(A.t) == nB:
                # every piece of the resumed run equals the piece of the uninterrupted run (values and end slopes: no stale cached slopes)
                ok = []
                for i in range(pieces):
                    pa, pb = step_order(sol.y_interpolants)[i], step_order(B.sol.y_interpolants)[i]
                    for nm in ("p0", "p1", "m0", "m1"):
                        ok.append(_eqv(c, getattr(pa, nm), getattr(pb, nm)))
                    ok.append(c.eq(pa.t0, pb.t0))
                    ok.append(c.eq(pa.t1, pb.t1))
                c.check("c12.resume_dense_output_pieces_equal_fault_free_run", c.all(ok))
        # (5) reset restores a pristine system
        st4, r4 = run(A.reset)
        c.check("c12.reset_runs", st4 == "ok", info=repr(r4))
        if st4 == "ok":
            sol = A.sol
            pristine = [len(A.t) == 1, len(A.y) == 1, len(A.events) == 0, A.nfev == 0,
                        A.integration_status == "Integration has not been run.", sol is not None and len(sol) == 0]
            c.check("c12.reset_restores_pristine_observables", all(pristine), info=dict(flags=pristine))
            c.check("c12.reset_restores_t0_y0_dt0", c.all([c.eq(A.t[0], t0), _eqv(c, A.y[0], B.y[0]), c.eq(absval(c, A.dt), adt),
                                                            c.lt(0, A.dt * (tf - t0))]))
            if kind == "fixed":
                st5, r5 = run(A.integrate, callback=[spans.cap_callback(c, cap, kind)])
                c.check("c12.run_after_reset_equals_fresh_run", st5 == "ok" and len(A.t) == nB and _rows_equal(c, A, B, min(len(A.t), nB)),
                        info=dict(st=st5, nA=len(A.t), nB=nB))


def _diverge(c, inst, A, logA, kind, cap, t0, tf):
    """the k-th stage solve diverges; afterwards every solve started from a finite guess succeeds.  Either the call recovers by
    retrying, or it raises the failure error - and then a second integrate() must continue to the target."""
    from desolver.exception_types import FailedIntegration
    s = 1 if bool(tf - t0 > 0) else -1
    with spans.stubs_for(c, dict(inst, root_diverge_at=inst["k"]), logA["root"]):
        st, r = _run_catching(A.integrate, callback=[spans.cap_callback(c, cap + 2, kind)])
        if len(logA["root"]) <= inst["k"]:
            c.note("outcome", "run ended before the diverging solve")
            return
        c.case()
        finite = all(not (isinstance(v, float) and v != v) for row in A.y for v in flat(c, row))
        c.check("c12.diverge.no_nonfinite_state_recorded", finite)
        if st != "ok":
            cause = getattr(r, "__cause__", None)
            if isinstance(cause, StepCap):
                return
            c.check("c12.diverge.raises_FailedIntegration", st == "exc" and isinstance(r, FailedIntegration), info=repr(r)[:120])
            c.check("c12.diverge.status_reports_failure", not A.success)
            c.check("c12.diverge.prefix_monotone", c.all([c.lt(0, s * (A.t[i + 1] - A.t[i])) for i in range(len(A.t) - 1)]))
            st, r = _run_catching(A.integrate, callback=[spans.cap_callback(c, cap + 2, kind)])
            if st != "ok" and isinstance(getattr(r, "__cause__", None), StepCap):
                return
            c.check("c12.diverge.second_call_continues_to_target", st == "ok", info=repr(r)[:160] + " / " + repr(getattr(r, "__cause__", None))[:160])
            if st != "ok":
                return
        c.check("c12.diverge.monotone_to_target", c.all([c.lt(0, s * (A.t[i + 1] - A.t[i])) for i in range(len(A.t) - 1)] +
                                                        [c.le(absval(c, A.t[-1] - tf), 64 * spans.EPS64 * 64)]))
        bad = [e for e in logA["root"] if e.get("bad_guess")]
        c.check("c12.diverge.no_solve_started_from_nonfinite_guess", not bad, info=dict(solves=len(logA["root"]), from_nonfinite_guess=len(bad)))


def _event_fault(c, inst):
    """the event function raises at its k-th evaluation inside the REAL handle_events (root finder stubbed)"""
    import desolver.differential_system as ds
    from desolver.exception_types import FailedIntegration
    t0, tf, dt0 = c.real("t0"), c.real("tf"), c.real("dt0")
    span, adt = spans.input_assumptions(c, inst, t0, tf, dt0)
    fam = inst["family"]
    method, shape, kind = spans.FAMILIES[fam]
    dense = inst.get("dense", True)
    rhsA = FreshRhs(c, shape, name="f", mode="uf")
    st, built = run(spans.build_system, c, inst, t0, tf, dt0, dense, rhsA)
    if st != "ok":
        c.check("c12.constructs", False, info=repr(built))
        return
    A, _, logA = built
    exc = _mkexc(inst["exc"])
    state = dict(n=0, off=False)

    def ev(t, y, **kw):
        state["n"] += 1
        if state["n"] == inst["k"] and not state["off"]:
            raise exc
        return t - (t0 + tf) * 0.5
    ev.is_terminal = False
    ev.direction = 0
    stub_calls = []

    def root_stub(f, bounds, tol=None, verbose=False, return_interval=False, accepts_mask=False):
        lo, hi = bounds
        lam = c.real("lam%d" % len(stub_calls))
        c.assume(lam >= 0)
        c.assume(lam <= 1)
        stub_calls.append(lam)
        ok = bool(c.real("succ%d" % (len(stub_calls) - 1)) > 0)
        return c.array([lo + lam * (hi - lo)]), np.array([ok], dtype=bool)
    cap = inst["N"] + 4
    backward = bool(tf - t0 < 0)
    with patched(ds, "root_finder", root_stub):
        st, r = _run_catching(A.integrate, events=[ev], callback=[spans.cap_callback(c, cap, kind)])
    if state["n"] < inst["k"]:
        c.note("outcome", "run ended before the crash point")
        return
    c.case()
    c.note("rows_at_fault", len(A.t))
    if inst["exc"] == "KeyboardInterrupt":
        c.check("c12.event.keyboard_interrupt_propagates_as_itself", st == "kbd" and r is exc, info=dict(st=st, r=repr(r)))
        c.check("c12.event.status_reports_interrupt", "KeyboardInterrupt" in A.integration_status and not A.success)
    else:
        c.check("c12.event.raises_FailedIntegration_with_cause", st == "exc" and isinstance(r, FailedIntegration) and r.__cause__ is exc,
                info=dict(st=st, r=repr(r), cause=repr(getattr(r, "__cause__", None))))
        c.check("c12.event.status_reports_failure", "failed" in A.integration_status.lower() and not A.success)
    nA = len(A.t)
    s = -1 if backward else 1
    c.check("c12.event.rows_paired_and_monotone", len(A.t) == len(A.y) and c.all([c.eq(A.t[0], t0)] + [c.lt(0, s * (A.t[i + 1] - A.t[i])) for i in range(nA - 1)]))
    c.check("c12.event.recorded_events_lie_in_recorded_range", c.all([c.le(0, s * (A.t[-1] - e.t) + 64 * spans.EPS64 * 64, 64) for e in A.events]),
            info=dict(events=len(A.events), rows=nA))
    if dense:
        sol = A.sol
        pieces = 0 if sol is None or sol.t_eval is None else len(sol.t_eval)
        c.check("c12.event.dense_output_one_piece_per_recorded_step", pieces == nA - 1, info=dict(pieces=pieces, rows=nA))
    # resume without the fault
    state["off"] = True
    with patched(ds, "root_finder", root_stub):
        st3, r3 = _run_catching(A.integrate, events=[ev], callback=[spans.cap_callback(c, cap, kind)])
    if st3 != "ok":
        cause = getattr(r3, "__cause__", None)
        if not isinstance(cause, StepCap):
            c.check("c12.event.resume_reaches_target", False, info=repr(r3) + " / " + repr(cause))
        return
    c.check("c12.event.resume_monotone_to_target", c.all([c.lt(0, s * (A.t[i + 1] - A.t[i])) for i in range(len(A.t) - 1)] +
                                                         [c.le(absval(c, A.t[-1] - tf), 64 * spans.EPS64 * 64)]))
    if dense:
        sol = A.sol
        pieces = 0 if sol is None or sol.t_eval is None else len(sol.t_eval)
        c.check("c12.event.resume_dense_output_one_piece_per_step", pieces == len(A.t) - 1, info=dict(pieces=pieces, rows=len(A.t)))
        if pieces == len(A.t) - 1 and pieces > 0:
            its = list(sol.y_interpolants)[::-1] if backward else list(sol.y_interpolants)
            c.check("c12.event.resume_dense_pieces_contiguous", c.all([c.all([c.eq(its[i].t0, A.t[i]), c.eq(its[i].t1, A.t[i + 1])]) for i in range(pieces)]))
