"""C05 - adaptive control (partial claim: the rejected-step / failure clause and the controller's decision rule)."""
from __future__ import annotations

import numpy as np

from . import spans
from .common import FreshRhs, FreshRhsWithJac, patched, ctrl_stub, verdict_root_stub, run, run_bounded, flat, absval, StepCap

PROPERTY = "C05"
LEVEL = "other"
EXPLANATION = (
    "Claimed: the second sentence of the property.  (a) The real RungeKuttaIntegrator.__call__ retry loop is executed with h of "
    "either sign, fresh-symbol right-hand side and the ctrl contract stub; every step size handed to the real step() is recorded: "
    "z3 decides that attempt k+1 has the sign of attempt k and strictly smaller magnitude, that the (dTime, dState) handed back are "
    "those of the last attempt, and that when every attempt is rejected FailedToMeetTolerances is raised - through "
    "OdeSystem.integrate as FailedIntegration with that cause and no new row.  (b) The REAL IntegratorTemplate.update_timestep "
    "(and implicit_aware_update_timestep on top of it) is executed in isolation on symbolic (state, error estimate, dState, dT) with "
    "x**(1/p), arctan, log, exp as axiomatised uninterpreted functions: returned step = corr*dT with 0.2 < corr < 2.6 (the range "
    "assumed by the ctrl stub everywhere else), redo <=> corr < 0.81, not redo => scaled error norm <= 1, scaled error norm >= 4 => redo.  "
    "(c) Richardson __call__: a rejected step re-enters with a strictly smaller magnitude of the same sign (or the call does not terminate: reported).")
ASSUMPTIONS = [
    "real arithmetic; x**k, arctan, log, exp are uninterpreted functions constrained by monotonicity, sign, fixed points, r^n = x for k = 1/n, and "
    "certified numeric enclosures of arctan at a few break points (float exponents such as 1.0/5 are read as the nearby small rational)",
    "ctrl contract stub: (corr*dT, corr < 0.81), corr in (0.2, 2.6), at most 3 symbolic rejections plus the single all-reject path",
    "NOT claimed (first sentence of the property): proportionality of the GLOBAL error to (atol + rtol*|y|) over a whole run - it depends on many "
    "controller steps through transcendental functions and on the conditioning of the problem; no useful bound is solver-decidable",
]
BOUNDS = {"quick": dict(rejections="<= 3 symbolic + all-reject path", dims="(1,), (2,)", pairs="HeunEuler, RK45CK, DOPRI45, RadauIIA5"),
          "thorough": dict(rejections="<= 4", dims="(1,), (2,)", pairs="all 9 embedded pairs")}
OUTSIDE = ["global error vs tolerance proportionality (first sentence)", "IEEE rounding in the controller"]


def _adaptive_classes():
    import desolver.integrators as I
    out = []
    for cls in list(I.explicit_methods()) + list(I.implicit_methods()):
        if issubclass(cls, I.ExplicitSymplecticIntegrator):
            continue
        if np.asarray(cls.tableau_final).shape[0] == 2:
            out.append(cls)
    return out


def instances(tier):
    quick = tier == "quick"
    b = dict(wall_s=70 if quick else 600, max_paths=2000 if quick else 20000)
    out = []
    names = ["HeunEulerSolver", "RK45CKSolver", "DOPRI45", "RadauIIA5"] if quick else [cls.__name__ for cls in _adaptive_classes()]
    for nm in names:
        out.append(dict(id="retry-%s" % nm, kind="retry", cls=nm, shape=[1], max_redo=(2 if nm.startswith("Radau") or nm.startswith("Lobatto") else 3) if quick else 4, budget=b))
        out.append(dict(id="allreject-%s" % nm, kind="allreject", cls=nm, shape=[1], budget=b))
    out.append(dict(id="retry-RK45CKSolver-2d", kind="retry", cls="RK45CKSolver", shape=[2], max_redo=2, budget=b))
    for fam in ("heun_euler", "dopri45"):
        out.append(dict(id="integrate-allreject-%s" % fam, kind="ode_allreject", family=fam, N=2, budget=b))
        out.append(dict(id="integrate-rejected-then-accepted-%s" % fam, kind="ode_retry", family=fam, N=2, max_redo=2, budget=b))
    for order, nm in ((2, "HeunEulerSolver"), (5, "RK45CKSolver")):
        for dim in (1, 2):
            if dim == 2 and quick and order == 5:
                continue
            out.append(dict(id="controller-%s-dim%d" % (nm, dim), kind="controller", cls=nm, shape=[dim], budget=b))
    for nf in ("inf", "nan"):
        out.append(dict(id="controller-nonfinite-%s-RK45CKSolver" % nf, kind="controller", cls="RK45CKSolver", shape=[1], nonfinite=nf, budget=b))
        out.append(dict(id="controller-implicit-aware-nonfinite-%s-RadauIIA5" % nf, kind="controller_implicit", cls="RadauIIA5", shape=[1], nonfinite=nf, budget=b))
    # the controller of a Richardson wrapper (its own safety factor) on a non-finite error estimate: rejected as well
    for nf in ("inf", "nan"):
        for base in (("RK4Solver",) if quick else ("RK4Solver", "EulerSolver", "ImplicitMidpoint")):
            out.append(dict(id="controller-nonfinite-%s-richardson-%s" % (nf, base), kind="controller", cls="richardson:" + base, shape=[1], nonfinite=nf, budget=b))
    out.append(dict(id="controller-history-HeunEulerSolver", kind="controller_history", cls="HeunEulerSolver", shape=[1], budget=b))
    for meth in ("RK45", "richardson:EulerSolver", "richardson:HeunEulerSolver"):
        for leg in (False, True):
            out.append(dict(id="tolerance-flow-%s%s" % (meth.replace(":", "-"), "-after-first-leg" if leg else ""), kind="tolerance_flow", method=meth, first_leg=leg, N=2, budget=b))
    out.append(dict(id="controller-implicit-aware-RadauIIA5", kind="controller_implicit", cls="RadauIIA5", shape=[1], budget=b))
    for base in ("EulerSolver", "RK4Solver", "SymplecticEulerSolver"):
        out.append(dict(id="richardson-retry-%s" % base, kind="richardson", cls=base, budget=dict(b, max_branches=150, max_paths=60, wall_s=50)))
    # a wrapper around an ADAPTIVE base whose coarsest sub-step is shortened by the base's own controller: every level of the
    # extrapolation table must cover the interval that is handed back, for either sign of the step
    for base in (("HeunEulerSolver",) if quick else ("HeunEulerSolver", "RK45CKSolver", "DOPRI45")):
        out.append(dict(id="richardson-adaptive-base-shortens-%s" % base, kind="richardson_cover", cls=base, budget=b))
    return out


def _cls(name):
    import desolver.integrators as I
    if name.startswith("richardson:"):
        return I.generate_richardson_integrator(getattr(I, name.split(":", 1)[1]))
    return getattr(I, name)


def _mk(c, cls, shape, **kw):
    dt = np.dtype(object) if c.symbolic else np.dtype(np.float64)
    return cls(tuple(shape), dtype=dt, rtol=1e-6, atol=1e-6, **kw)


def _eqv(c, a, b):
    fa, fb = flat(c, a), flat(c, b)
    return len(fa) == len(fb) and c.all([c.eq(u, v) for u, v in zip(fa, fb)])


def scenario(c, inst):
    from desolver.exception_types import FailedToMeetTolerances, FailedIntegration
    import desolver.utilities.optimizer as opt
    kind = inst["kind"]
    if kind in ("retry", "allreject"):
        cls = _cls(inst["cls"])
        shape = tuple(inst["shape"])
        n = int(np.prod(shape))
        t, h = c.real("t"), c.real("h")
        c.assume(h != 0)
        y = c.array([c.real("y%d" % i) for i in range(n)]).reshape(shape)
        integ = _mk(c, cls, shape)
        implicit = bool(integ.is_implicit)
        rhs = (FreshRhsWithJac if implicit else FreshRhs)(c, shape)
        log = []
        if kind == "retry":
            integ.update_timestep = ctrl_stub(c, integ, log, max_redo=inst["max_redo"])
        else:
            integ.update_timestep = ctrl_stub(c, integ, log, fixed=0.5, fixed_redo=True)
        attempts = []
        results = []
        orig_step = integ.step

        def step(rhs_, t_, y_, consts, hh):
            attempts.append(hh)
            r = orig_step(rhs_, t_, y_, consts, hh)
            results.append((integ.dTime, integ.dState))
            return r
        integ.step = step
        with patched(opt, "nonlinear_roots", verdict_root_stub(c, success="true")):
            st, r = run(integ, rhs, t, y, {}, h)
        c.note("attempts", len(attempts))
        if kind == "allreject":
            c.check("c05.all_rejected_raises_FailedToMeetTolerances", st == "exc" and isinstance(r, FailedToMeetTolerances), info=dict(st=st, r=repr(r)[:100], attempts=len(attempts)))
            c.check("c05.retries_before_giving_up", len(attempts) == 65, info=dict(attempts=len(attempts)))
        else:
            if st != "ok":
                c.check("c05.retry_loop_returns", False, info=repr(r))
                return
            new_h, (dT, dY) = r
            c.check("c05.returned_increment_is_last_attempt", c.all([c.eq(dT, attempts[-1]), _eqv(c, dY, results[-1][1])]))
            last = log[-1]
            c.check("c05.accepted_only_when_controller_accepts", not last["redo"])
        c.check("c05.first_attempt_is_requested_step", c.eq(attempts[0], h))
        mono = []
        for k in range(1, len(attempts)):
            mono.append(c.lt(0, attempts[k] * attempts[k - 1]))
            mono.append(c.lt(attempts[k] * attempts[k], attempts[k - 1] * attempts[k - 1]))
        if mono:
            c.check("c05.retry_strictly_smaller_same_sign", c.all(mono), info=dict(attempts=len(attempts)))
        return
    if kind == "ode_allreject":
        t0, tf, dt0 = c.real("t0"), c.real("tf"), c.real("dt0")
        spans.input_assumptions(c, inst, t0, tf, dt0)
        st, built = run(spans.build_system, c, inst, t0, tf, dt0)
        if st != "ok":
            c.check("c05.constructs", False, info=repr(built))
            return
        a, rhs, log = built
        a.integrator.update_timestep = ctrl_stub(c, a.integrator, fixed=0.5, fixed_redo=True)
        st, r = run(a.integrate)
        c.check("c05.integrate_raises_FailedIntegration_caused_by_FailedToMeetTolerances",
                st == "exc" and isinstance(r, FailedIntegration) and isinstance(r.__cause__, FailedToMeetTolerances), info=dict(st=st, r=repr(r)[:120]))
        c.check("c05.no_row_recorded_for_rejected_step", len(a.t) == 1 and len(a.y) == 1, info=dict(rows=len(a.t)))
        return
    if kind == "ode_retry":
        # through OdeSystem.integrate: what is recorded for a step is exactly the accepted (last, smaller) attempt - never the rejected one
        t0, tf, dt0 = c.real("t0"), c.real("tf"), c.real("dt0")
        spans.input_assumptions(c, inst, t0, tf, dt0)
        st, built = run(spans.build_system, c, inst, t0, tf, dt0)
        if st != "ok":
            c.check("c05.constructs", False, info=repr(built))
            return
        a, rhs, log = built
        attempts = []
        orig_step = a.integrator.step

        def step(rhs_, t_, y_, consts, hh):
            r = orig_step(rhs_, t_, y_, consts, hh)
            attempts.append((t_, hh, a.integrator.dTime, a.integrator.dState))
            return r
        a.integrator.step = step
        cb = spans.cap_callback(c, inst["N"] + 4, "adaptive")
        st, r = run(a.integrate, callback=cb)
        if st != "ok":
            return
        c.case()
        spans.pairing_checks(c, "c05.ode", a, cb)
        # every recorded row is the LAST attempt made from its start time
        ok = []
        for i in range(1, len(a.t)):
            from_here = [x for x in attempts if bool(c.eq(x[0], a.t[i - 1]) if not c.symbolic else (x[0] - a.t[i - 1] == 0))]
            if not from_here:
                ok.append(False)
                continue
            last = from_here[-1]
            ok.append(c.eq(a.t[i] - a.t[i - 1], last[2], 64))
            ok.append(_eqv(c, a.y[i] - a.y[i - 1], last[3]))
        c.check("c05.ode.recorded_row_is_the_last_attempt_from_its_start", c.all(ok), info=dict(rows=len(a.t), attempts=len(attempts)))
        return
    if kind in ("controller", "controller_implicit"):
        _controller(c, inst)
        return
    if kind == "controller_history":
        _controller_history(c, inst)
        return
    if kind == "tolerance_flow":
        _tolerance_flow(c, inst)
        return
    if kind == "richardson_cover":
        return _richardson_cover(c, inst)
    if kind == "richardson":
        _richardson(c, inst)
        return
    raise ValueError(kind)


def _controller(c, inst):
    """the REAL update_timestep on symbolic data, first call (no history)"""
    cls = _cls(inst["cls"])
    shape = tuple(inst["shape"])
    n = int(np.prod(shape))
    integ = _mk(c, cls, shape)
    y = c.array([c.real("y%d" % i) for i in range(n)])
    e = c.array([c.real("e%d" % i) for i in range(n)])
    if inst.get("nonfinite"):
        # the error estimate of an overflowed trial step: not finite
        e = c.array([float(inst["nonfinite"])] * n) if c.symbolic else np.array([float(inst["nonfinite"])] * n)
    dY = c.array([c.real("d%d" % i) for i in range(n)])
    dT = c.real("dT")
    c.assume(dT != 0)
    for v in flat(c, y) + flat(c, dY):
        c.assume(v <= 1000)
        c.assume(v >= -1000)
    c.assume(absval(c, dT) >= 1e-6)
    atol = rtol = 1e-6
    sd = integ.solver_dict
    for k in ("epsilon_last", "epsilon_last_last", "system_scaling"):
        sd.pop(k, None)
    # (safety_factor, order: the values the integrator's own constructor put there)
    sd.update(dict(initial_state=y, diff=e, timestep=dT, atol=atol, rtol=rtol, dState=dY))
    if inst["kind"] == "controller_implicit":
        sd.update(dict(niter0=0, niter1=0, newton_prec0=0.0, newton_prec1=0.0))
        from desolver.integrators.utilities import implicit_aware_update_timestep
        st, r = run(implicit_aware_update_timestep, integ)
    else:
        st, r = run(integ.update_timestep)
    if st != "ok":
        c.check("c05.controller_returns", False, info=repr(r))
        return
    new_dt, redo = r
    c.note("redo", bool(redo))
    if inst.get("nonfinite"):
        c.check("c05.nonfinite_error_estimate_is_rejected", bool(redo), info=dict(estimate=inst["nonfinite"], cls=inst["cls"]))
        c.check("c05.retry_after_nonfinite_estimate_is_smaller", c.all([c.lt(0, new_dt * dT), c.lt(new_dt * new_dt, dT * dT)]) if not isinstance(new_dt, float) or new_dt == new_dt else False)
        return
    # scaled error norm^2 = sum (e_i / (atol + rtol*max(|y_i|, |dY_i/dT|)))^2 ; expressed without sqrt
    scal = []
    for yi, di in zip(flat(c, y), flat(c, dY)):
        s1 = absval(c, yi)
        s2 = absval(c, di / dT) if c.symbolic else abs(di / dT)
        if c.symbolic:
            from srx import core
            scal.append(core.sym_max(s1, s2))
        else:
            scal.append(max(s1, s2))
    err2 = 0
    for ei, si in zip(flat(c, e), scal):
        q = ei / (atol + rtol * si)
        err2 = err2 + q * q
    c.check("c05.controller_step_has_sign_of_dT", c.lt(0, new_dt * dT))
    # corr = new_dt / dT
    c.check("c05.controller_corr_in_stub_range", c.all([c.lt(0.2 * dT * dT, new_dt * dT), c.lt(new_dt * dT, 2.6 * dT * dT)]))
    is_small = c.lt(new_dt * dT, (0.9 ** 2) * dT * dT)
    if redo:
        c.check("c05.redo_iff_corr_below_0.81", is_small)
        c.check("c05.no_redo_implies_error_norm_le_1", True)
    else:
        c.check("c05.redo_iff_corr_below_0.81", ~is_small if c.symbolic else (not is_small))
        c.check("c05.no_redo_implies_error_norm_le_1", c.le(err2, 1, 1))
        c.check("c05.error_norm_ge_4_implies_redo", c.lt(err2, 16, 1))


def _tolerance_flow(c, inst):
    """the tolerances the step controller is handed are the ones currently set on the system - also when they were changed through
    the rtol / atol setters after the method was chosen (and after a first leg of the integration).  The controller itself is replaced
    (for every integrator class at once) by a recorder that accepts every step: only the data flow is decided here."""
    import desolver as de
    import desolver.integrators as I
    import desolver.integrators.integrator_template as tmpl
    t0, tf, dt0 = c.real("t0"), c.real("tf"), c.real("dt0")
    spans.input_assumptions(c, dict(inst, family="euler"), t0, tf, dt0)
    tols = {}
    for nm in ("r1", "a1", "r2", "a2"):
        v = c.real(nm)
        c.assume(v >= 1e-9)
        c.assume(v <= 1e-2)
        tols[nm] = v
    meth = inst["method"]
    if meth.startswith("richardson:"):
        meth = I.generate_richardson_integrator(getattr(I, meth.split(":")[1]), richardson_iter=2)
    shape = (1,)
    rhs = FreshRhs(c, shape)
    y0 = c.array([c.real("y0_0")])
    rec = []

    def recorder(self, ignore_custom_adaptation=False):
        sd = self.solver_dict
        rec.append(dict(obj=self, sd_atol=sd.get("atol"), sd_rtol=sd.get("rtol"), atol=self.atol, rtol=self.rtol,
                        bases=[(b.atol, b.rtol) for b in getattr(self, "basis_integrators", [])]))
        return sd.get("timestep", self.dTime), False

    def build():
        a = de.OdeSystem(rhs, y0=y0, t=(t0, tf), dt=dt0, rtol=tols["r1"], atol=tols["a1"])
        a.method = meth
        return a
    with patched(tmpl.IntegratorTemplate, "update_timestep", recorder):
        st, a = run(build)
        if st != "ok":
            c.check("c05.tol.constructs", False, info=repr(a)[:200])
            return
        if inst.get("first_leg"):
            st, r = run(a.integrate, t0 + 0.5 * (tf - t0), callback=[spans.cap_callback(c, 6, "adaptive")])
            if st != "ok":
                return
            c.check("c05.tol.first_leg_controller_sees_constructor_tolerances", len(rec) > 0 and c.all(
                [c.all([c.eq(e["sd_atol"], tols["a1"]), c.eq(e["sd_rtol"], tols["r1"])]) for e in rec]))
        st, r = run(setattr, a, "rtol", tols["r2"])
        st2, r2 = run(setattr, a, "atol", tols["a2"])
        c.check("c05.tol.setters_return", st == "ok" and st2 == "ok", info=repr((r, r2))[:200])
        del rec[:]
        st, r = run(a.integrate, callback=[spans.cap_callback(c, 6, "adaptive")])
        if st != "ok":
            return
        c.case()
        c.check("c05.tol.controller_invoked", len(rec) > 0)
        c.check("c05.tol.controller_sees_current_tolerances", c.all(
            [c.all([c.eq(e["sd_atol"], tols["a2"]), c.eq(e["sd_rtol"], tols["r2"])]) for e in rec]), info=dict(invocations=len(rec)))
        c.check("c05.tol.integrator_and_its_basis_integrators_hold_current_tolerances", c.all(
            [c.all([c.eq(e["atol"], tols["a2"]), c.eq(e["rtol"], tols["r2"])] + [c.all([c.eq(ba, tols["a2"]), c.eq(br, tols["r2"])]) for ba, br in e["bases"]])
             for e in rec]))
        c.check("c05.tol.system_reports_current_tolerances", c.all([c.eq(a.rtol, tols["r2"]), c.eq(a.atol, tols["a2"])]))


def _controller_history(c, inst):
    """two consecutive real __call__s of ONE integrator with the REAL controller: a step from (t1, yA) and then a step from an
    arbitrary other point (t2, yB), each with up to max_attempts attempts.  Whatever came before - the earlier step, rejected attempts
    of the same call - the attempt that is accepted must meet the tolerance formed from ITS OWN data."""
    from srx import core
    cls = _cls(inst["cls"])
    shape = tuple(inst["shape"])
    n = int(np.prod(shape))
    integ = _mk(c, cls, shape)
    rhs = FreshRhs(c, shape)
    attempts = []
    orig_step = integ.step

    def step(rhs_, t_, y_, consts, hh):
        attempts.append(hh)
        if len(attempts) > inst.get("max_attempts", 2):
            raise core.CutPath("step_cap", "more than %d attempts in one call" % inst.get("max_attempts", 2))
        return orig_step(rhs_, t_, y_, consts, hh)
    integ.step = step
    atol = rtol = 1e-6
    for k in range(2):
        t, h = c.real("t%d" % k), c.real("h%d" % k)
        c.assume(h != 0)
        c.assume(absval(c, h) >= 1e-6)
        c.assume(absval(c, h) <= 1000)
        y = c.array([c.real("y%d_%d" % (k, i)) for i in range(n)]).reshape(shape)
        for v in flat(c, y):
            c.assume(v <= 1000)
            c.assume(v >= -1000)
        del attempts[:]
        st, r = run(integ, rhs, t, y, {}, h)
        if st != "ok":
            return          # FailedToMeetTolerances etc. are the other instances' subject
        natt = len(attempts)
        new_h, (dT, dY) = r
        c.note("attempts_call_%d" % k, natt)
        # whatever happened before (an earlier step, rejected attempts of this call): the attempt that is ACCEPTED meets the tolerance
        # formed from its own data, atol + rtol*max(|y|, |dY/dT|)
        e = integ.solver_dict["diff"]
        err2 = 0
        for yi, di, ei in zip(flat(c, y), flat(c, dY), flat(c, e)):
            s1 = absval(c, yi)
            s2 = absval(c, di / dT) if c.symbolic else abs(di / dT)
            si = core.sym_max(s1, s2) if c.symbolic else max(s1, s2)
            q = ei / (atol + rtol * si)
            err2 = err2 + q * q
        c.check("c05.history.accepted_step_meets_tolerance_of_its_own_state", c.le(err2, 1, 1), info=dict(cls=inst["cls"], call=k, attempts=natt))
        c.check("c05.history.next_step_has_sign_of_dT", c.lt(0, new_h * dT))


def _richardson_cover(c, inst):
    import desolver.integrators as I
    base = _cls(inst["cls"])
    RI = I.generate_richardson_integrator(base, richardson_iter=2)
    t, h = c.real("t"), c.real("h")
    c.assume(h != 0)
    shape = (1,)
    y = c.array([c.real("y0")])
    dt = np.dtype(object) if c.symbolic else np.dtype(np.float64)
    integ = RI(shape, dtype=dt, rtol=1e-6, atol=1e-6)
    # the coarsest level's base integrator rejects its first attempt once (its controller proposes corr*h, corr < 0.81); the finer level accepts
    integ.basis_integrators[0].update_timestep = ctrl_stub(c, integ.basis_integrators[0], max_redo=1)
    for bi in integ.basis_integrators[1:]:
        bi.update_timestep = ctrl_stub(c, bi, fixed=1.0)
    integ.update_timestep = ctrl_stub(c, integ, fixed=1.0)
    covered = []
    orig = integ.subdiv_step

    def subdiv(int_num, rhs_, t_, y_, hh, consts, num):
        r = orig(int_num, rhs_, t_, y_, hh, consts, num)
        covered.append((int_num, r[1][0]))
        return r
    integ.subdiv_step = subdiv
    rhs = FreshRhs(c, shape)
    st, r = run(integ, rhs, t, y, {}, h)
    if st != "ok":
        c.check("c05.richardson_cover.call_returns", False, info=repr(r))
        return
    new_h, (dT, dY) = r
    c.case()
    c.note("levels_run", [k for k, _ in covered])
    c.check("c05.richardson_cover.handed_back_step_has_sign_of_h_and_is_not_longer", c.all([c.lt(0, dT * h), c.le(dT * dT, h * h, 1)]))
    c.check("c05.richardson_cover.every_level_covers_the_step_handed_back", c.all([c.eq(cov, dT, 1) for _, cov in covered]),
            info=dict(levels=len(covered)))


def _richardson(c, inst):
    import desolver.integrators as I
    base = _cls(inst["cls"])
    RI = I.generate_richardson_integrator(base, richardson_iter=2)
    symp = bool(getattr(base, "symplectic", False))
    shape = (2,) if symp else (1,)
    t, h = c.real("t"), c.real("h")
    c.assume(h != 0)
    y = c.array([c.real("y%d" % i) for i in range(shape[0])])
    dt = np.dtype(object) if c.symbolic else np.dtype(np.float64)
    integ = RI(shape, dtype=dt, rtol=1e-6, atol=1e-6)
    for bi in integ.basis_integrators:
        bi.update_timestep = ctrl_stub(c, bi, fixed=1.0)
    log = []
    integ.update_timestep = ctrl_stub(c, integ, log, max_redo=2)
    attempts = []
    orig = integ.adaptive_richardson

    def ar(rhs_, t_, y_, consts, hh):
        attempts.append(hh)
        if len(attempts) > 8:
            raise StepCap("more than 8 re-entries")
        return orig(rhs_, t_, y_, consts, hh)
    integ.adaptive_richardson = ar
    rhs = FreshRhs(c, shape)
    from srx import core
    try:
        st, r = run_bounded(6.0, integ, rhs, t, y, {}, h)
    except core.BudgetHit as e:
        if e.args and e.args[0] == "wall":
            raise
        st, r = "hang", None      # hundreds of branch decisions inside one __call__: the step-size search loop does not terminate
    c.note("attempts", len(attempts))
    if st == "hang":
        c.check("c05.richardson_call_terminates", False, info=dict(attempts=len(attempts), symplectic=symp))
        return
    if st == "exc":
        c.check("c05.richardson_call_terminates", not isinstance(r, StepCap), info=repr(r))
        if not isinstance(r, StepCap):
            c.check("c05.richardson_no_exception", False, info=repr(r))
        return
    c.check("c05.richardson_call_terminates", True)
    mono = []
    for k in range(1, len(attempts)):
        mono.append(c.lt(0, attempts[k] * attempts[k - 1]))
        mono.append(c.lt(attempts[k] * attempts[k], attempts[k - 1] * attempts[k - 1]))
    if mono:
        c.check("c05.richardson_retry_strictly_smaller_same_sign", c.all(mono), info=dict(attempts=len(attempts), symplectic=symp))
    c.check("c05.richardson_reentered_iff_rejected", len(attempts) - 1 == sum(1 for e in log if e["redo"]), info=dict(attempts=len(attempts), log=len(log)))
