"""C16 - finite-difference Jacobians (JacobianWrapper) and the Jacobian dispatch of the right-hand-side wrapper (DiffRHS.jac).

Real code executed symbolically: desolver.utilities.utilities.JacobianWrapper.{__init__, __call__, estimate, richardson,
adaptive_richardson, check_converged}, get_finite_difference_weights (concrete input: runs natively incl. scipy.linalg.solve),
desolver.differential_system.DiffRHS.{__init__, __call__, jac, hook_jacobian_call, unhook_jacobian_call, set_jac_base_order,
__setattr__, __getattr__}.
"""
from __future__ import annotations

import itertools
from fractions import Fraction

import numpy as np

from .common import run, flat, absval

PROPERTY = "C16"
LEVEL = "other"

NOISE_LOG2 = -40            # asserted agreement: 2^-40 * scale (see ASSUMPTIONS)
MEASURED_LOG2 = -50         # what the stencil moments computed from the real weights must satisfy (checked on every path)
NOISE = Fraction(1, 2 ** 40)

EXPLANATION = (
    "(a) The real JacobianWrapper is called on maps whose coefficients AND evaluation point are solver variables: affine maps "
    "f(y') = F + A.(y' - y) (F = f(y) and A arbitrary; shapes scalar->scalar, (2,)->(2,), (3,)->(2,), (2,2)->(3,), i.e. "
    "non-square and non-symmetric, so a transposed layout is visible) and polynomial maps given by their Taylor coefficients at y "
    "(1-2 variables, degree <= 4 for base order 4 and 5, degree <= 2 for base order 2, degree 3 for base order 2 with >= 3 "
    "Richardson levels), with adaptive=True (default depth) and adaptive=False (fixed richardson_iter), flat=False and flat=True, "
    "base order 2, 4, 5.  The stencil weights are the real ones (float64 solve executed natively, lifted to exact rationals).  "
    "Every branch on a symbolic value forks (|y_j| > 1 and dy > |y_j| > 0 per level and component in the non-adaptive branch, "
    "the two convergence tests per level of the adaptive loop); on every feasible path z3 is asked, per entry, for (A, F, y) with "
    "|J[i..., j...] - A_ij| * d_j > 2^-40 * (|A_ij| * d_j + |F_i|) (d_j = smallest perturbation the code applied to input j, read "
    "from the recorded calls): unsat means the entry is the derivative of output i with respect to input j up to the rounding "
    "noise of the float64 stencil weights, for ALL real A, F, y of the path; for base order 2 (weights -1/2, 1/2 exact) exact "
    "equality is decided.  The returned shape must be (*shape(f), *shape(y)) (flat: (size f, size y), a scalar for 1x1), the "
    "flat result must be entrywise the flat=False result, and every recorded evaluation of f must perturb at most one input.  "
    "(b) The real DiffRHS is driven through EVERY operation history of the stated length over {J: jac(t_k, y_k) with fresh "
    "symbolic t_k (and y_k), H: hook_jacobian_call(fn_k), U: unhook_jacobian_call(), A: rhs.jac = fn_k, B: "
    "set_jac_base_order(4), K: replace the wrapper by copy.copy(wrapper) as OdeSystem(...) does (the attached Jacobian must carry over, njev restarts), thorough also C: set_jac_base_order(2)}; the instance fixes the first operation(s), the others are "
    "chosen by solver variables, so each history is a set of paths.  Wrapped rhs: a class instance f(t, y) = (A0 + t*A1).y with "
    "symbolic A0, A1, with and without a user `jac` attribute.  After every request: a user Jacobian attached by attribute, hook "
    "or assignment (latest hook/assignment first, the attribute after an unhook) must have been called exactly once with "
    "(t_k, y_k) and its result returned unchanged and no other user Jacobian called; otherwise the result must have shape (n, n) "
    "with entry [i, j] equal to (A0 + t_k*A1)_ij for the REQUESTED t_k (bound as in (a)), every evaluation of f made by the "
    "request must be at time t_k and at a state differing from y_k in at most one component (one of them at y_k itself), and "
    "njev must equal the number of requests answered.  Equal and different times of consecutive requests are both explored "
    "(the code's `t != jac_time` test forks).")
ASSUMPTIONS = [
    "real arithmetic over the exact rational values of all float64 constants (stencil weights and nodes, step sizes 0.5*4^-m, "
    "sqrt(eps), tolerances 4*eps); the IEEE rounding of the function evaluations and difference quotients is not modelled",
    "the stencil weights are those returned by the real get_finite_difference_weights (float64 linear solve): their moments "
    "sum_k w_k node_k^p are 0/1 only up to ~1e-16 (measured |sum w| = 8.3e-17, |sum w*node - 1| = 1.6e-16 for base order 4, 5; "
    "exact for base order 2); every path first checks |moment_p - [p == 1]| <= 2^%d (c16.stencil.moments)" % MEASURED_LOG2,
    "'agrees to rounding' is therefore decided as |J_ij - A_ij| * d_j <= 2^%d * (|A_ij| * d_j + |F_i|) for base order 4, 5 (the "
    "term |F_i| / d_j is the sum(w) != 0 noise amplified by the step) and as exact equality for base order 2; polynomial maps: "
    "<= 2^%d * (|T_0| + d_j * (|T_1| + sum_{k>=2} |T_k| * (3*dmax_j)^(k-1))), T_k the Taylor coefficients in direction j, "
    "dmax_j the largest perturbation of input j" % (NOISE_LOG2, NOISE_LOG2),
    "affine / polynomial maps are parametrised by their Taylor coefficients at the evaluation point (F = f(y), A = f'(y), ...): "
    "as y and the coefficients range over all reals this is every affine / polynomial map at every evaluation point",
    "cubic maps with base order 2 and adaptive=False: each y_j is 0 or |y_j| >= 1/2, so that all levels use the same kind of "
    "step (see OUTSIDE)",
    "(b): user Jacobian functions return fresh symbols per call (arbitrary matrices); histories with a 2-dimensional state request "
    "the Jacobian at the zero state (they decide layout, time and dispatch; a non-zero 2-d state makes the convergence tests of "
    "the adaptive loop too hard for the solver: > 10 s per query), the state handling is decided by the 1-dimensional histories "
    "with symbolic y_k",
]
BOUNDS = {
    "quick": dict(affine_shapes=["()->()", "(2,)->(2,)", "(3,)->(2,)", "(2,2)->(3,)"], base_orders=[2, 4, 5],
                  adaptive="default depth (16 - base_order levels); shapes with <= 6 Jacobian entries (base order 4: <= 4 entries)",
                  fixed_depth="richardson_iter 0, 1, 3 (scalar), 0, 3 ((2,)), 2 ((3,)), 1 ((2,2)); base order 4 only on scalar and (2,)",
                  polynomials="1 variable, degree <= 4", history_length=3, history_alphabet="J H U A B",
                  history_states=["(1,) symbolic", "(2,) zero state"]),
    "thorough": dict(affine_shapes=["()->()", "(2,)->(2,)", "(3,)->(2,)", "(2,2)->(3,)"], base_orders="2, 4, 5 (scalar and (2,) inputs: also 3, 6, 8)",
                     adaptive="default depth; all shapes",
                     fixed_depth="richardson_iter 0..4 and default (scalar), 0, 1, 3, 4 ((2,)), 1, 3 ((3,)), 1, 2 ((2,2))",
                     polynomials="1 and 2 variables, degree <= 4", history_length=4, history_alphabet="J H U A B C",
                     history_states=["(1,) symbolic", "(2,) zero state"]),
}
OUTSIDE = [
    "accuracy 'near the requested tolerance' on non-polynomial smooth functions and on polynomials of degree above the stencil's "
    "exactness (rounding dominated, no useful real-arithmetic model)",
    "IEEE cancellation error eps*|f|/h of the difference quotients (about 1e-8 relative at the deepest default level h = 0.5*4^-13)",
    "adaptive=False with components 0 < |y_j| < 1/2: the levels then mix relative steps dy_m*y_j and absolute steps dy_m, the step "
    "sequence is not geometric and the extrapolation does not cancel the leading error term (observed, not a registered finding: "
    "f = -(y' - y)^3 + const, base_order 2, richardson_iter 3, y = -1/16 returns -1.04e-3 for the derivative 0); exactness of the "
    "base stencil is unaffected and is decided on those paths",
    "torch backend (torch.func.jacrev branch of DiffRHS.jac)", "nfev bookkeeping of the finite-difference evaluations (C20)",
    "DiffRHS.__copy__/__deepcopy__, set_jac_base_order before the first request (silently ignored by the code)",
]

K_UNHOOK = "c16.unhook_then_jac_calls_none"
K_BASEORDER = "c16.set_jac_base_order_flat_wrapper"

# J: jac(t_k, y_k), H: hook_jacobian_call(fn_k), U: unhook_jacobian_call(), A: rhs.jac = fn_k, B / C: set_jac_base_order(4 / 2)
HIST_OPS = ["J", "H", "U", "A", "B", "K", "F"]   # F: a request during which the rhs raises (finite-difference mode), caught by the caller      # K: the wrapper is replaced by copy.copy(wrapper) (what OdeSystem(...) does with it)


# --------------------------------------------------------------------------------------------------------------------
def _tag(sh):
    return "x".join(map(str, sh)) or "s"


def instances(tier):
    out = []
    quick = tier == "quick"
    shapes = [((), ()), ((2,), (2,)), ((3,), (2,)), ((2, 2), (3,))]
    for sin, sout in shapes:
        n = int(np.prod(sin)) if sin else 1
        m = int(np.prod(sout)) if sout else 1
        ent = n * m
        for bo in ((2, 4, 5) if quick or n > 2 else (2, 3, 4, 5, 6, 8)):
            if quick and bo == 4 and n > 2:
                continue          # quick: base order 4 on the scalar and (2,) shapes only (same code path as 5, different weights)
            # adaptive, default Richardson depth
            if ent <= (6 if quick else 12):
                out.append(dict(id="affine-%s-to-%s-bo%d-adaptive" % (_tag(sin), _tag(sout), bo), kind="affine", sin=list(sin), sout=list(sout),
                                bo=bo, adaptive=True, riter=None, budget=dict(wall_s=80 if quick else 600, max_paths=400)))
            # fixed depth
            if n == 1:
                depths = [0, 1, 3] if quick else [0, 1, 2, 3, 4, None]      # None: the default depth 16 - base_order
            elif n == 2:
                depths = [0, 3] if quick else [0, 1, 3, 4]
            elif n == 3:
                depths = [2] if quick else [1, 3]
            else:
                depths = [1] if quick else [1, 2]
            for r in depths:
                out.append(dict(id="affine-%s-to-%s-bo%d-fixed%s" % (_tag(sin), _tag(sout), bo, "default" if r is None else r), kind="affine", sin=list(sin), sout=list(sout),
                                bo=bo, adaptive=False, riter=r, budget=dict(wall_s=80 if quick else 600, max_paths=4000)))
    # the state handed over is NOT stored in C order (column-major copy / transposed view, what np.asfortranarray(Y) or Y.T give):
    # entry [i..., j...] is still d output_i / d input_j for the LOGICAL index j
    for sin, sout in ([((2, 2), (3,))] if quick else [((2, 2), (3,)), ((3, 2), (2,)), ((2, 3), (2,))]):
        for bo in ((2, 5) if quick else (2, 4, 5)):
            for r in ((1,) if quick else (1, 2)):
                out.append(dict(id="affine-%s-to-%s-bo%d-fixed%s-fortran" % (_tag(sin), _tag(sout), bo, r), kind="affine", sin=list(sin), sout=list(sout),
                                bo=bo, adaptive=False, riter=r, layout="F", budget=dict(wall_s=80 if quick else 600, max_paths=4000)))
        if not quick:
            out.append(dict(id="affine-%s-to-%s-bo2-adaptive-fortran" % (_tag(sin), _tag(sout)), kind="affine", sin=list(sin), sout=list(sout),
                            bo=2, adaptive=True, riter=None, layout="F", budget=dict(wall_s=600, max_paths=400)))
    # polynomial maps
    polys = []
    for bo in (2, 4, 5):
        deg_exact = 2 if bo == 2 else 4
        polys.append((1, deg_exact, bo, False, 1))
        if not (quick and bo == 4):
            polys.append((1, deg_exact, bo, True, None))
        if bo == 2:
            polys.append((1, 3, 2, False, 3))     # h^2 error term removed by the first Richardson extrapolation
            polys.append((1, 3, 2, True, None))
            if not quick:
                polys.append((1, 3, 2, False, 4))
        if not quick:
            polys.append((2, deg_exact, bo, False, 1))
            polys.append((2, deg_exact, bo, True, None))
            polys.append((1, deg_exact, bo, False, 2))
    # two variables, fixed depth: the per-component rescaling of the step (|y_j| > 1, 0 < |y_j| < dy) must not carry over to the next component
    polys.append((2, 3, 2, False, 3))
    if not quick:
        polys.append((2, 3, 2, True, None))
    for nv, deg, bo, ad, r in polys:
        out.append(dict(id="poly-%dvar-deg%d-bo%d-%s" % (nv, deg, bo, "adaptive" if ad else "fixed%d" % r), kind="poly", nvar=nv, deg=deg,
                        bo=bo, adaptive=ad, riter=r, budget=dict(wall_s=80 if quick else 600, max_paths=2000)))
    # operation histories on DiffRHS: the instance fixes the first operation(s), the rest is chosen by solver variables
    L = 3 if quick else 4
    plen = 1 if quick else 2
    ops = HIST_OPS if quick else HIST_OPS + ["C"]
    for attr in (0, 1):
        for dim in (1, 2):
            for pre in itertools.product(ops, repeat=plen):
                out.append(dict(id="hist-%s-dim%d-%s" % ("attr" if attr else "noattr", dim, "".join(pre)), kind="hist", attr=bool(attr), dim=dim,
                                prefix="".join(pre), length=L, ops="".join(ops), budget=dict(wall_s=80 if quick else 600, max_paths=20000)))
    return out


# --------------------------------------------------------------------------------------------------------------------
# stencil moments of the real weights

_MOM = {}


def _moments(bo):
    """exact rational moments sum_k w_k node_k^p, p = 0..5, of the weights the real JacobianWrapper uses for this base order"""
    if bo not in _MOM:
        from desolver.utilities import utilities as U
        jw = U.JacobianWrapper(lambda y: y, base_order=bo)
        nodes = [Fraction(float(x)) for x in jw.nodal_points]
        ws = [Fraction(float(x)) for x in jw.weights]
        _MOM[bo] = ([sum(w * a ** p for w, a in zip(ws, nodes)) for p in range(6)], nodes, ws)
    return _MOM[bo]


def _noise_for(bo, deg):
    """(stencil ok?, noise constant): 0 when the moments needed for this degree are exact, else 2^-40"""
    mom, nodes, ws = _moments(bo)
    dev = [abs(mom[p] - (1 if p == 1 else 0)) for p in range(deg + 1)]
    ok = all(d <= Fraction(1, 2 ** (-MEASURED_LOG2)) for d in dev) and len(nodes) >= 2 and all(abs(a) <= 1 for a in nodes)
    return ok, (Fraction(0) if all(d == 0 for d in dev) else NOISE)


# --------------------------------------------------------------------------------------------------------------------
# helpers shared by (a) and (b)


def _is_zero(c, d):
    if c.symbolic:
        from srx.core import SymReal
        if isinstance(d, SymReal):
            return not d.p
        return d == 0
    return float(d) == 0.0


class _Recorder:
    """records, per evaluation of the user function, the deviation of the argument from the base point"""

    def __init__(self, c, y0):
        self.c = c
        self.y0 = list(y0)
        self.dev = []          # list of lists (deviation per component)

    def record(self, yy):
        yf = flat(self.c, yy)
        d = [yf[k] - self.y0[k] for k in range(len(self.y0))]
        self.dev.append(d)
        return yf, d

    def one_component_at_a_time(self):
        c = self.c
        for d in self.dev:
            nz = [k for k, v in enumerate(d) if not _is_zero(c, v)]
            if len(nz) > 1:
                return False
        return True

    def perturbations(self, j):
        out = []
        for d in self.dev:
            nz = [k for k, v in enumerate(d) if not _is_zero(self.c, v)]
            if nz == [j]:
                out.append(d[j])
        return out


def _dmin_dmax(c, perts, yj):
    """smallest / largest |perturbation| (symbolic: constants and multiples of y_j are folded, anything else via abs atoms)"""
    if not c.symbolic:
        a = [abs(float(p)) for p in perts]
        return min(a), max(a)
    from srx import core
    consts, coefs, other = [], [], []
    yk = None
    if isinstance(yj, core.SymReal) and len(yj.p) == 1:
        (mono, co), = yj.p.items()
        if co == 1 and len(mono) == 1 and mono[0][1] == 1:
            yk = mono
    for p in perts:
        p = core.as_symreal(p)
        if p.is_const:
            consts.append(abs(p.const_value))
        elif yk is not None and len(p.p) == 1 and yk in p.p:
            coefs.append(abs(p.p[yk]))
        else:
            other.append(core.sym_abs(p))
    lo, hi = [], []
    if consts:
        lo.append(core.SymReal(core.p_const(min(consts))))
        hi.append(core.SymReal(core.p_const(max(consts))))
    if coefs:
        ay = core.sym_abs(yj)
        lo.append(min(coefs) * ay)
        hi.append(max(coefs) * ay)
    lo += other
    hi += other
    dmin, dmax = lo[0], hi[0]
    for v in lo[1:]:
        dmin = core.sym_min(dmin, v)
    for v in hi[1:]:
        dmax = core.sym_max(dmax, v)
    return dmin, dmax


def _fnum(x):
    try:
        return abs(float(x))
    except Exception:
        return 1.0


def _close(c, got, want, dmin, bound_terms, noise, rscale):
    """conditions (each its own query) for |got - want| * dmin <= noise * bound_terms   (exact equality when noise == 0)"""
    if noise == 0:
        return [c.eq(got * dmin, want * dmin, rscale)]
    diff = (got - want) * dmin
    b = bound_terms * noise if c.symbolic else bound_terms * float(noise)
    return [c.le(diff, b, rscale), c.le(-diff, b, rscale)]


def _check_close(c, name, info, *a, split=False):
    """one query for the two-sided bound (the path condition dominates the cost in the adaptive mode), or one per side"""
    conds = _close(c, *a)
    if split:
        for cond in conds:
            c.check(name, cond, info=info)
    else:
        c.check(name, c.all(conds) if len(conds) > 1 else conds[0], info=info)


def _shape_of(x):
    return tuple(np.shape(x))


def _entry(J, idx):
    if idx == ():
        a = np.asarray(J, dtype=object) if not isinstance(J, np.ndarray) else J
        return a.reshape(-1)[0]
    return J[idx]


# --------------------------------------------------------------------------------------------------------------------
# (a) JacobianWrapper on affine and polynomial maps


def _scen_affine(c, inst):
    from desolver.utilities import utilities as U
    sin, sout = tuple(inst["sin"]), tuple(inst["sout"])
    n = int(np.prod(sin)) if sin else 1
    m = int(np.prod(sout)) if sout else 1
    bo = inst["bo"]
    ok, noise = _noise_for(bo, 1)
    c.check("c16.stencil.moments", ok, info=dict(base_order=bo, moments=[str(float(x)) for x in _moments(bo)[0]]))
    if not ok:
        return
    y0 = [c.real("y%d" % k) for k in range(n)]
    y = c.array(y0).reshape(sin)
    if inst.get("layout") == "F":
        y = y.T.copy().T        # same values, same logical indices, column-major storage
        assert not y.flags["C_CONTIGUOUS"] and tuple(y.shape) == sin
    A = [[c.real("A%d_%d" % (i, k)) for k in range(n)] for i in range(m)]
    F = [c.real("F%d" % i) for i in range(m)]
    absF = [absval(c, F[i]) for i in range(m)]
    reference = None          # entries of the flat=False result, (i, j) -> value, once they have been checked against A
    for flat_mode in (False, True):
        P = "c16.affine.flat." if flat_mode else "c16.affine."
        rec = _Recorder(c, y0)

        def f(yy, rec=rec):
            yf, d = rec.record(yy)
            out = []
            for i in range(m):
                v = F[i]
                for k in range(n):
                    if not _is_zero(c, d[k]):
                        v = v + A[i][k] * d[k]
                out.append(v)
            return c.array(out).reshape(sout)

        st, jw = run(U.JacobianWrapper, f, base_order=bo, adaptive=inst["adaptive"], richardson_iter=inst["riter"], flat=flat_mode)
        if st != "ok":
            c.check(P + "constructs", False, info=repr(jw))
            continue
        st, J = run(jw, y)
        if st != "ok":
            c.check(P + "returns", False, info=repr(J) if st == "exc" else "does not return")
            continue
        c.note("evaluations" + ("_flat" if flat_mode else ""), len(rec.dev))
        if flat_mode:
            want_shape = () if (m, n) == (1, 1) else (m, n)
        else:
            want_shape = sout + sin
        good_shape = _shape_of(J) == want_shape
        c.check(P + "shape_is_output_then_input", good_shape, info=dict(got=list(_shape_of(J)), want=list(want_shape)))
        c.check(P + "perturbs_one_input_at_a_time", rec.one_component_at_a_time())
        if not good_shape:
            continue
        entries = {}
        for j in range(n):
            perts = rec.perturbations(j)
            c.check(P + "every_input_perturbed", len(perts) > 0, info=dict(input=j))
            if not perts:
                continue
            dmin, _ = _dmin_dmax(c, perts, y0[j])
            for i in range(m):
                if flat_mode:
                    idx = () if want_shape == () else (i, j)
                else:
                    idx = (np.unravel_index(i, sout) if sout else ()) + (np.unravel_index(j, sin) if sin else ())
                got = _entry(J, tuple(int(q) for q in idx))
                entries[(i, j)] = got
                rs = 1
                if not c.symbolic:
                    rs = 64 * (_fnum(F[i]) + sum(_fnum(A[i][k]) * (_fnum(y0[k]) + 1.0) for k in range(n)))
                if flat_mode and reference is not None and (i, j) in reference:
                    # same stencil, same steps: the flat result must be the flat=False result, re-laid-out as [i, j]
                    c.check(P + "entry_ij_equals_unflattened_entry", c.eq(got * dmin, reference[(i, j)] * dmin, rs), info=dict(i=i, j=j))
                    continue
                bound = absval(c, A[i][j]) * dmin + absF[i]
                _check_close(c, P + "entry_ij_is_d_output_i_d_input_j", dict(i=i, j=j), got, A[i][j], dmin, bound, noise, rs)
        if not flat_mode:
            reference = entries


def _scen_poly(c, inst):
    from desolver.utilities import utilities as U
    nv, deg, bo = inst["nvar"], inst["deg"], inst["bo"]
    m = 1          # one output: layout is decided by the affine instances, here the cross terms T_ab (a, b >= 1) matter
    # exactness: moments 0..deg must be (nearly) right, except that Richardson removes the h^2 term for base order 2 / degree 3
    ok, noise = _noise_for(bo, min(deg, 2) if bo == 2 else deg)
    c.check("c16.stencil.moments", ok, info=dict(base_order=bo))
    if not ok:
        return
    y0 = [c.real("y%d" % k) for k in range(nv)]
    y = c.array(y0).reshape((nv,))
    if bo == 2 and deg == 3 and not inst["adaptive"]:
        # the extrapolation only cancels the h^2 term when the levels use a geometric step sequence (see OUTSIDE)
        for v in y0:
            c.assume(c.any([c.eq(v, 0), c.le(Fraction(1, 2) if c.symbolic else 0.5, v), c.le(v, Fraction(-1, 2) if c.symbolic else -0.5)]))
    alphas = [a for a in itertools.product(range(deg + 1), repeat=nv) if sum(a) <= deg]
    T = [{a: c.real("T%d_%s" % (i, "".join(map(str, a)))) for a in alphas} for i in range(m)]
    rec = _Recorder(c, y0)

    def f(yy):
        yf, d = rec.record(yy)
        out = []
        for i in range(m):
            v = 0
            for a in alphas:
                term = T[i][a]
                dead = False
                for k in range(nv):
                    if a[k]:
                        if _is_zero(c, d[k]):
                            dead = True
                            break
                        term = term * d[k] ** a[k]
                if not dead:
                    v = v + term
            out.append(v)
        return c.array(out).reshape((m,))

    P = "c16.poly."
    st, jw = run(U.JacobianWrapper, f, base_order=bo, adaptive=inst["adaptive"], richardson_iter=inst["riter"], flat=False)
    if st != "ok":
        c.check(P + "constructs", False, info=repr(jw))
        return
    st, J = run(jw, y)
    if st != "ok":
        c.check(P + "returns", False, info=repr(J) if st == "exc" else "does not return")
        return
    good_shape = _shape_of(J) == (m, nv)
    c.check(P + "shape_is_output_then_input", good_shape, info=dict(got=list(_shape_of(J))))
    c.check(P + "perturbs_one_input_at_a_time", rec.one_component_at_a_time())
    if not good_shape:
        return
    for j in range(nv):
        perts = rec.perturbations(j)
        c.check(P + "every_input_perturbed", len(perts) > 0)
        if not perts:
            continue
        dmin, dmax = _dmin_dmax(c, perts, y0[j])
        for i in range(m):
            def tk(k):
                a = tuple(k if q == j else 0 for q in range(nv))
                return T[i][a]
            rs = 1
            if not c.symbolic:
                rs = 64 * sum(_fnum(tk(k)) * (3.0 * float(dmax) + 1.0) ** k for k in range(deg + 1))
            inner = absval(c, tk(1))
            hm = 3 * dmax
            for k in range(2, deg + 1):
                inner = inner + absval(c, tk(k)) * hm ** (k - 1)
            bound = absval(c, tk(0)) + dmin * inner
            _check_close(c, P + "entry_ij_is_d_output_i_d_input_j", dict(i=i, j=j), J[i, j], tk(1), dmin, bound, noise, rs, split=not inst["adaptive"])


# --------------------------------------------------------------------------------------------------------------------
# (b) DiffRHS.jac under operation histories


class _UserRhs:
    """f(t, y) = (A0 + t*A1).y ; a class instance, so that DiffRHS.__setattr__ can forward attributes to its __dict__"""

    def __init__(self, c, A0, A1, n):
        self._c, self._A0, self._A1, self._n = c, A0, A1, n
        self.calls = []

    def __call__(self, t, y, **kw):
        c, n = self._c, self._n
        yf = flat(c, y)
        if getattr(self, "fault_in", 0) > 0:
            self.fault_in -= 1
            if self.fault_in == 0:
                raise RhsFault("the right-hand side raised during a finite-difference evaluation")
        self.calls.append((t, yf))
        out = []
        for i in range(n):
            v = 0
            for k in range(n):
                v = v + (self._A0[i][k] + t * self._A1[i][k]) * yf[k]
            out.append(v)
        return c.array(out).reshape((n,))


class RhsFault(Exception):
    pass


class _UserJac:
    def __init__(self, c, name, n):
        self.c, self.name, self.n = c, name, n
        self.calls = []
        self.results = []

    def __call__(self, t, y, **kw):
        self.calls.append((t, y))
        r = self.c.array(self.c.uf(self.name, [], self.n * self.n, fresh=True)).reshape((self.n, self.n))
        self.results.append(r)
        return r


def _choose(c, name, k):
    """one of range(k), chosen by a solver variable (each value is a path; the float replay reads it from the witness)"""
    s = c.real(name)
    for v in range(k - 1):
        if bool(s < v + 1):
            return v
    return k - 1


def _scen_hist(c, inst):
    from desolver.differential_system import DiffRHS
    n = inst["dim"]
    L = inst["length"]
    prefix = inst["prefix"]
    ok, noise = _noise_for(5, 1)
    ok4, noise4 = _noise_for(4, 1)
    c.check("c16.stencil.moments", ok and ok4)
    if not (ok and ok4):
        return
    noise = max(noise, noise4)
    ops = list(prefix)
    alphabet = inst["ops"]
    for k in range(len(prefix), L):
        ops.append(alphabet[_choose(c, "op%d" % k, len(alphabet))])
    c.note("history", "".join(ops))
    A0 = [[c.real("A0_%d_%d" % (i, k)) for k in range(n)] for i in range(n)]
    A1 = [[c.real("A1_%d_%d" % (i, k)) for k in range(n)] for i in range(n)]
    user = _UserRhs(c, A0, A1, n)
    attr_jac = None
    if inst["attr"]:
        attr_jac = _UserJac(c, "attrjac", n)
        user.jac = attr_jac
    st, rhs = run(DiffRHS, user)
    if st != "ok":
        c.check("c16.hist.constructs", False, info=repr(rhs))
        return
    # ---- specification state
    hooked = None                 # the function attached by hook / assignment, None after unhook
    all_jacs = [attr_jac] if attr_jac is not None else []
    answered = 0
    # ---- bookkeeping that only delimits the two known-finding regions (which histories trigger S15)
    requests_made = 0
    unhook_pending = False        # unhook_jacobian_call() issued after >= 1 request; nothing attached / rebuilt / answered since
    fd_mode = False               # requests are being answered by finite differences (first request had nothing attached, no hook since)
    fd_time = None                # time at which the finite-difference wrapper was last built (0 after set_jac_base_order)
    base_order_pending = False    # set_jac_base_order() issued in finite-difference mode; every request since was at t == 0
    P = "c16.hist."
    for k, op in enumerate(ops):
        if op in ("H", "A"):
            fn = _UserJac(c, "userjac%d" % k, n)
            all_jacs.append(fn)
            if op == "H":
                st, r = run(rhs.hook_jacobian_call, fn)
            else:
                st, r = run(setattr, rhs, "jac", fn)
            c.check(P + "attach_returns", st == "ok", info=dict(op=op, pos=k, err=repr(r)))
            hooked = fn
            unhook_pending = False
            base_order_pending = False
            fd_mode = False
            continue
        if op == "K":
            import copy
            st, r = run(copy.copy, rhs)
            c.check(P + "copy_returns", st == "ok" and isinstance(r, DiffRHS), info=dict(pos=k, err=repr(r)[:120]))
            if st == "ok" and isinstance(r, DiffRHS):
                # the copy wraps the same function with the same attached Jacobian; its counters start again
                rhs = r
                answered = 0
                requests_made = 0
                unhook_pending = False
                fd_mode = False
                fd_time = None
                base_order_pending = False
            continue
        if op == "U":
            st, r = run(rhs.unhook_jacobian_call)
            c.check(P + "detach_returns", st == "ok", info=dict(pos=k, err=repr(r)))
            hooked = None
            if requests_made > 0:
                unhook_pending = True
            continue
        if op in ("B", "C"):
            st, r = run(rhs.set_jac_base_order, 4 if op == "B" else 2)
            c.check(P + "set_base_order_returns", st == "ok", info=dict(pos=k, err=repr(r)))
            if fd_mode:
                base_order_pending = True
                unhook_pending = False        # the wrapper is rebuilt, which also repairs a dangling None
                fd_time = 0
            continue
        # ---- a Jacobian request at a fresh symbolic time (and state)
        t = c.real("t%d" % k)
        if op == "F" and (hooked if hooked is not None else attr_jac) is None:
            # the user's rhs raises at its first evaluation made for this request: the exception reaches the caller, nothing is counted,
            # and later requests are unaffected (whatever the wrapper cached for the failed time)
            yF = c.array([c.real("y%d_%d" % (k, q)) for q in range(n)] if n == 1 else ([0] * n if c.symbolic else [0.0] * n)).reshape((n,))
            user.fault_in = 1
            st, J = run(rhs.jac, t, yF)
            user.fault_in = 0
            c.check(P + "rhs_exception_during_request_propagates", st == "exc" and isinstance(J, RhsFault), info=dict(history="".join(ops), pos=k, got=repr(J)[:100]))
            c.check(P + "njev_counts_requests", rhs.njev == answered, info=dict(history="".join(ops), pos=k, njev=repr(rhs.njev), answered=answered))
            requests_made += 1
            unhook_pending = False
            base_order_pending = False
            fd_mode = True
            fd_time = t
            continue
        if n == 1:
            y0 = [c.real("y%d_%d" % (k, q)) for q in range(n)]
        else:
            y0 = [0] * n if c.symbolic else [0.0] * n      # dim 2: zero state (layout / time only, see BOUNDS)
        y = c.array(y0).reshape((n,))
        n_rhs0 = len(user.calls)
        n_jac0 = {id(f): len(f.calls) for f in all_jacs}
        expected = hooked if hooked is not None else attr_jac
        info = dict(history="".join(ops), pos=k)
        reg_ret = {}
        if unhook_pending:
            # S15(i): after unhook the stored function is None; in finite-difference mode the wrapper is only rebuilt when t differs
            reg_ret[K_UNHOOK] = c.eq(t, fd_time) if fd_mode else True
        requests_made += 1
        st, J = run(rhs.jac, t, y)
        c.check(P + "request_returns", st == "ok", info=dict(info, err=repr(J) if st == "exc" else st), regions=reg_ret)
        if st != "ok":
            continue
        answered += 1
        unhook_pending = False
        c.check(P + "njev_counts_requests", rhs.njev == answered, info=dict(info, njev=repr(rhs.njev), answered=answered))
        new_calls = user.calls[n_rhs0:]
        if expected is not None:
            others = [f for f in all_jacs if f is not expected and len(f.calls) != n_jac0[id(f)]]
            called = len(expected.calls) - n_jac0[id(expected)]
            good = called == 1 and not others
            c.check(P + "attached_user_jacobian_called_once", good, info=dict(info, called=called, others=len(others)))
            if good:
                tc, yc = expected.calls[-1]
                want = expected.results[-1]
                same = J is want or (_shape_of(J) == (n, n) and bool(c.all([c.eq(a, b) for a, b in zip(flat(c, J), flat(c, want))])))
                c.check(P + "attached_user_jacobian_result_returned", same, info=info)
                c.check(P + "attached_user_jacobian_gets_requested_t_y", c.all([c.eq(tc, t)] + [c.eq(a, b) for a, b in zip(flat(c, yc), y0)]), info=info)
            continue
        # ---- nothing attached: finite differences of the right-hand side at (t, y) expected
        used_user = [f for f in all_jacs if len(f.calls) != n_jac0[id(f)]]
        c.check(P + "detached_user_jacobian_not_called", not used_user, info=info)
        reg_shape = {}
        if base_order_pending:
            # S15(ii): set_jac_base_order installs a flat=True wrapper frozen at t = 0 which is kept while requests come at t == 0
            reg_shape[K_BASEORDER] = c.eq(t, 0)
        good_shape = _shape_of(J) == (n, n)
        c.check(P + "fd_shape", good_shape, info=dict(info, got=list(_shape_of(J))), regions=reg_shape)
        c.check(P + "fd_evaluates_rhs", len(new_calls) > 0, info=info)
        c.check(P + "fd_rhs_at_requested_time", c.all([c.eq(tc, t) for tc, _ in new_calls]), info=info)
        rec = _Recorder(c, y0)
        for _, yf in new_calls:
            rec.record(yf)
        c.check(P + "fd_rhs_at_requested_state", rec.one_component_at_a_time() and any(all(_is_zero(c, v) for v in d) for d in rec.dev), info=info)
        fd_mode = True
        if base_order_pending:
            base_order_pending = bool(c.eq(t, 0))      # decided already by the code's own `t != jac_time` test: no new fork
        fd_time = 0 if base_order_pending else t
        Jf = flat(c, J)
        if len(Jf) != n * n or not new_calls:
            continue
        G = [[A0[i][q] + t * A1[i][q] for q in range(n)] for i in range(n)]
        Fv = [sum(G[i][q] * y0[q] for q in range(n)) for i in range(n)]
        for j in range(n):
            perts = rec.perturbations(j)
            c.check(P + "fd_every_input_perturbed", len(perts) > 0, info=info)
            if not perts:
                continue
            dmin, _ = _dmin_dmax(c, perts, y0[j])
            for i in range(n):
                rs = 1
                if not c.symbolic:
                    rs = 64 * sum(_fnum(G[i][q]) * (_fnum(y0[q]) + 1.0) for q in range(n))
                bound = absval(c, G[i][j]) * dmin + absval(c, Fv[i])
                _check_close(c, P + "fd_entry_ij_for_requested_time", dict(info, i=i, j=j), Jf[i * n + j], G[i][j], dmin, bound, noise, rs)


def scenario(c, inst):
    kind = inst["kind"]
    if kind == "affine":
        return _scen_affine(c, inst)
    if kind == "poly":
        return _scen_poly(c, inst)
    return _scen_hist(c, inst)
