"""C03 - integration covers exactly the requested time span, in order."""
from __future__ import annotations

import numpy as np

from . import spans
from .common import run, sgn, absval, flat, StepCap
from desolver.exception_types import FailedToMeetTolerances

PROPERTY = "C03"
LEVEL = "other"
EXPLANATION = (
    "The real OdeSystem.__init__/integrate (with the real integrator __call__/step) is executed symbolically with t0, tf, dt0 "
    "(and the targets of later integrate(t) calls) as arbitrary real solver variables - any sign, either direction, dt larger or "
    "smaller than the span - and the right-hand side returning fresh symbols.  All feasible paths within the step bound are "
    "enumerated; on each, z3 is asked for inputs violating: first row is (t0, y0); times/states paired; strictly monotone toward "
    "the target; no recorded time beyond the target; last time within 64*eps*scale of the target; status 'completed'; bounded "
    "number of steps (termination).  Counterexamples are replayed on the float64 code before being reported.")
ASSUMPTIONS = [
    "real arithmetic: 'ends at the target to within a few rounding units' is decided as |t_last - target| <= 64*eps*max(1,|t0|,|target|) over R",
    "|tf-t0| <= N*|dt0| (unwinding bound), 1/64 <= |dt0| <= 256, |tf-t0| >= 1/64, |t0|,|tf| <= 64",
    "user rhs = arbitrary function (fresh symbols per call); implicit families: contract stub verdict_root for optimizer.nonlinear_roots "
    "(arbitrary root, success, prec=0); adaptive families: contract stub ctrl for integrator.update_timestep (corr in (0.2,2.6), redo iff corr<0.81)",
]
BOUNDS = {
    "quick": dict(N=3, calls="<=2 integrate calls", families=list(spans.FAMILIES)),
    "thorough": dict(N=5, calls="<=3 integrate calls", families=list(spans.FAMILIES)),
}
OUTSIDE = ["the 5000-row pre-allocation cap", "finiteness / dtype preservation of stored values (IEEE)", "IEEE rounding of t + dt"]

REGIONS_DOC = {}


ASSUMPTIONS = list(globals().get("ASSUMPTIONS", [])) + [
    "callback-sets-dt instances: after every step a callback assigns the working step g with |dt0| <= g <= 256 (steps only get longer)",
]


def instances(tier):
    out = []
    N = 3 if tier == "quick" else 5
    for fam, (meth, shape, kind) in spans.FAMILIES.items():
        if tier == "quick" and fam in ("midpoint", "abas5o6h", "implicit_midpoint", "dopri45"):
            continue
        n = N if kind == "fixed" else min(N, 3)
        out.append(dict(id="one-call-%s-N%d" % (fam, n), family=fam, N=n, history="one",
                        budget=dict(wall_s=80 if tier == "quick" else 600, max_paths=4000 if tier == "quick" else 40000)))
    fams2 = ["euler", "sympl_euler"] if tier == "quick" else ["euler", "rk4", "sympl_euler", "backward_euler", "heun_euler"]
    for fam in fams2:
        for hist in ("two-targets", "target-then-rest"):
            out.append(dict(id="%s-%s-N2" % (hist, fam), family=fam, N=2, history=hist,
                            budget=dict(wall_s=80 if tier == "quick" else 600, max_paths=4000 if tier == "quick" else 40000)))
    for k in ((3,) if tier == "quick" else (1, 2, 3, 4)):       # (0: constructor probe, 1: start slope, 2..: stage evaluations)
        out.append(dict(id="nan-attempt-heun_euler-N2-k%d" % k, family="heun_euler", N=2, history="nan-attempt", nan_at=k, real_controller=True,
                        budget=dict(wall_s=80 if tier == "quick" else 300, max_paths=300)))
    for fam in (("euler",) if tier == "quick" else ("euler", "rk4", "sympl_euler")):
        out.append(dict(id="shallow-copies-%s-N2" % fam, family=fam, N=2, history="shallow-copies",
                        budget=dict(wall_s=80 if tier == "quick" else 600, max_paths=4000 if tier == "quick" else 40000)))
    # a step callback assigns a new (possibly much longer) working step after every step: the grid still ends on the target without passing it
    for fam in (("euler",) if tier == "quick" else ("euler", "rk4", "sympl_euler")):
        out.append(dict(id="callback-sets-dt-%s-N2" % fam, family=fam, N=2, history="callback-dt",
                        budget=dict(wall_s=80 if tier == "quick" else 600, max_paths=4000 if tier == "quick" else 40000)))
    # runs that monitor events: the real event section of integrate (roll-back and re-recording of steps, buffer growth) with the events oracle
    for fam, evs, dense in ((("euler", "n", False), ("euler", "nn", True)) if tier == "quick" else (("euler", "n", False), ("euler", "nn", True), ("rk4", "nn", False), ("sympl_euler", "n", True))):
        out.append(dict(id="events-%s-%s-%s-N2" % (fam, evs, "dense" if dense else "nodense"), family=fam, N=2, history="events", events=list(evs), dense=dense,
                        max_reports=3, kind="integrate", budget=dict(wall_s=80 if tier == "quick" else 600, max_paths=2500 if tier == "quick" else 40000)))
    return out


def scenario(c, inst):
    if inst.get("history") == "events":
        from . import events_common as EC
        return EC.scenario(c, inst, {"C03"})
    t0, tf, dt0 = c.real("t0"), c.real("tf"), c.real("dt0")
    span, adt = spans.input_assumptions(c, inst, t0, tf, dt0)
    kind = spans.FAMILIES[inst["family"]][2]
    st, built = run(spans.build_system, c, inst, t0, tf, dt0)
    if st == "exc":
        c.check("c03.constructs", False, info=repr(built))
        return
    a, rhs, log = built
    cap = inst["N"] + 3
    hist = inst["history"]
    with spans.stubs_for(c, inst, log["root"]):
        if hist == "one":
            cb = spans.cap_callback(c, cap, kind)
            st, r = run(a.integrate, callback=cb)
            if st == "exc":
                cause = getattr(r, "__cause__", None)
                if isinstance(cause, StepCap):
                    c.check("c03.terminates_within_bound", False, info=repr(cause))
                elif kind == "adaptive" and isinstance(cause, FailedToMeetTolerances):
                    c.note("outcome", "FailedToMeetTolerances (legitimate for an adaptive method; C05/C12)")
                else:
                    c.check("c03.no_exception", False, info=repr(r) + " / " + repr(cause))
                return
            c.note("n_rows", len(a.t))
            c.check("c03.status_completed", spans.status_ok(a))
            y0 = flat(c, log["y0"])
            c.check("c03.first_state_is_y0", c.all([c.eq(u, v) for u, v in zip(flat(c, a.y[0]), y0)]))
            spans.segment_checks(c, "c03", a, 0, t0, tf)
            spans.pairing_checks(c, "c03", a, cb)
            return
        if hist == "callback-dt":
            g = c.real("g")
            c.assume(g >= adt)                 # the steps only get longer: at most N steps to the target
            c.assume(g <= 256)
            capcb = spans.cap_callback(c, cap, kind)

            def setdt(system):
                system.dt = g
            st, r = run(a.integrate, callback=[capcb, setdt])
            if st == "exc":
                cause = getattr(r, "__cause__", None)
                c.check("c03.cbdt.terminates_within_bound" if isinstance(cause, StepCap) else "c03.cbdt.no_exception", False, info=repr(r) + " / " + repr(cause))
                return
            c.note("n_rows", len(a.t))
            c.check("c03.cbdt.status_completed", spans.status_ok(a))
            spans.segment_checks(c, "c03.cbdt", a, 0, t0, tf)
            return
        if hist == "nan-attempt":
            # the rhs leaves its domain at a trial point of the first attempt (it RETURNS NaN, no exception) - with the REAL step controller:
            # whatever the integrator does about it (reject and retry with a shorter step, or give up with an error), no non-finite time
            # or state is ever recorded, and a run that reports success covers the span in order
            rhs.nan_at = inst["nan_at"]
            cb = spans.cap_callback(c, cap + 2, kind)
            st, r = run(a.integrate, callback=cb)
            c.case()
            finite = all(not (isinstance(v, (float, np.floating)) and not np.isfinite(v)) for v in list(a.t) + [x for row in a.y for x in flat(c, row)])
            c.check("c03.nan.every_recorded_value_is_finite", finite, info=dict(rows=len(a.t), st=st))
            if st == "ok":
                c.check("c03.nan.status_completed", spans.status_ok(a))
                spans.segment_checks(c, "c03.nan", a, 0, t0, tf)
            return
        if hist == "shallow-copies":
            # scenarios branched from one initial condition: shallow copies of the system taken BEFORE the first integration, each then
            # integrated with its own step - every system keeps its own ordered grid from t0 to tf
            import copy
            b = copy.copy(a)
            g = c.real("g")
            c.assume(absval(c, g) >= 1.0 / 64)
            c.assume(absval(c, g) <= 256)
            c.assume(span <= inst["N"] * absval(c, g))
            b.dt = g
            cb_a = spans.cap_callback(c, cap, kind)
            st, r = run(a.integrate, callback=cb_a)
            if st != "ok":
                return
            snap_t, snap_y = list(a.t), [list(flat(c, a.y[i])) for i in range(len(a.t))]
            st, r = run(b.integrate, callback=spans.cap_callback(c, cap, kind))
            if st != "ok":
                return
            c.case()
            same = len(a.t) == len(snap_t) and c.all([c.all([c.eq(a.t[i], snap_t[i])] + [c.eq(u, v) for u, v in zip(flat(c, a.y[i]), snap_y[i])]) for i in range(len(snap_t))])
            c.check("c03.copies.integrating_a_copy_leaves_the_other_systems_rows_alone", same, info=dict(rows_before=len(snap_t), rows_after=len(a.t)))
            spans.segment_checks(c, "c03.copies.first", a, 0, t0, tf)
            spans.segment_checks(c, "c03.copies.second", b, 0, t0, tf)
            return
        # several integrate(t) calls: targets are arbitrary reals within reach
        T1 = c.real("T1")
        cur = t0
        targets = [T1]
        if hist == "two-targets":
            targets.append(c.real("T2"))
        else:
            targets.append(None)     # integrate() to the constructor's tf
        i0 = 0
        for k, tg in enumerate(targets):
            target = tf if tg is None else tg
            d = absval(c, target - cur)
            c.assume(d <= inst["N"] * absval(c, a.dt))      # the system's current step (a clamped call shrinks it for good)
            c.assume(target <= 64)
            c.assume(target >= -64)
            near = bool(d < 4 * spans.EPS64)     # "already there": integrate must change nothing
            if not near:
                c.assume(d >= 1.0 / 64)
            n_before = len(a.t)
            cb = spans.cap_callback(c, cap + 2, kind)
            if tg is None:
                st, r = run(a.integrate, callback=cb)
            else:
                st, r = run(a.integrate, tg, callback=cb)
            if st == "exc":
                cause = getattr(r, "__cause__", None)
                if isinstance(cause, StepCap):
                    c.check("c03.call%d.terminates_within_bound" % k, False, info=repr(cause))
                elif kind == "adaptive" and isinstance(cause, FailedToMeetTolerances):
                    c.note("outcome", "FailedToMeetTolerances")
                else:
                    c.check("c03.call%d.no_exception" % k, False, info=repr(r) + " / " + repr(cause))
                return
            if near:
                c.check("c03.call%d.noop_when_at_target" % k, len(a.t) == n_before)
            else:
                c.check("c03.call%d.status_completed" % k, spans.status_ok(a))
                spans.segment_checks(c, "c03.call%d" % k, a, n_before - 1, cur, target)
                spans.pairing_checks(c, "c03.call%d" % k, a, cb)
            cur = a.t[-1]
        c.note("n_rows", len(a.t))
