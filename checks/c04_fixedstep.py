"""C04 - fixed-step methods take the requested step wherever the time axis sits; shift / reflection invariance."""
from __future__ import annotations

import math

import numpy as np

from . import spans
from .common import run, sgn, absval, flat, StepCap, FreshRhs

PROPERTY = "C04"
LEVEL = "other"
EXPLANATION = (
    "The real OdeSystem.integrate + integrator __call__/step are executed symbolically with t0, tf, dt0 arbitrary reals "
    "(|dt0| <= |tf-t0| <= N*|dt0|, any sign/direction).  Per feasible path z3 is asked for inputs where a recorded step other "
    "than the last differs in magnitude from |dt0| or any step is longer.  Product runs: the same path also integrates the span "
    "shifted by an arbitrary real constant (autonomous uninterpreted rhs with congruence) and the time-reflected problem "
    "integrated backward; z3 is asked for inputs where the two state sequences differ (term equality over R).  Implicit "
    "families use the verdict_root stub; with a failing solve a shorter step is allowed.")
ASSUMPTIONS = [
    "real arithmetic (rounding-level agreement in the property = exact agreement over R)",
    "|dt0| <= |tf-t0| <= N*|dt0|, 1/64 <= |dt0| <= 256, |t0|,|tf|,|shift| <= 64",
    "rhs: fresh symbols per call (step sizes) / autonomous uninterpreted function with congruence (shift, reflection)",
    "implicit families: verdict_root contract stub for optimizer.nonlinear_roots",
]
BOUNDS = {"quick": dict(N=3), "thorough": dict(N=5)}
OUTSIDE = ["tolerance-level agreement of adaptive methods under shift/reflection (needs the real controller over many steps)",
           "IEEE rounding of t+dt accumulations"]

# growth factor of the non-adaptive implicit families (KNOWN finding c04.implicit_step_growth): 1 + arctan(0.8*inf - 1)
GROWTH = 1.0 + math.atan(float("inf"))


def instances(tier):
    out = []
    N = 3 if tier == "quick" else 5
    fams = ["euler", "rk4", "sympl_euler", "backward_euler"] if tier == "quick" else \
        ["euler", "rk4", "midpoint", "sympl_euler", "abas5o6h", "backward_euler", "implicit_midpoint"]
    b = dict(wall_s=80 if tier == "quick" else 600, max_paths=4000 if tier == "quick" else 40000)
    for fam in fams:
        kind = spans.FAMILIES[fam][2]
        n = N if kind == "fixed" else 3
        out.append(dict(id="steps-%s-N%d" % (fam, n), family=fam, N=n, mode="steps", budget=b))
        if kind == "implicit":
            out.append(dict(id="steps-%s-N2-solverfail" % fam, family=fam, N=2, mode="steps", root_success="fork", budget=b))
    # a ValueError raised once by the rhs is swallowed by the integrator's retry (known finding of C12): the retried step and all later
    # ones still have the requested size
    # (an explicit scheme re-raises such an exception since fix a48c06e: that is C12's subject; the implicit ones still retry)
    for fam in (["backward_euler"] if tier == "quick" else ["backward_euler", "implicit_midpoint"]):
        for k in ((3,) if tier == "quick" else (2, 3, 5)):
            out.append(dict(id="steps-%s-N2-valueerror-k%d" % (fam, k), family=fam, N=2, mode="steps", rhs_valueerror_at=k, budget=b))
    for fam in (["euler", "sympl_euler"] if tier == "quick" else ["euler", "rk4", "midpoint", "sympl_euler", "abas5o6h"]):
        out.append(dict(id="two-calls-%s-N4" % fam, family=fam, N=4, mode="twocalls", budget=b))
        out.append(dict(id="two-calls-reversal-%s-N3" % fam, family=fam, N=3, mode="twocalls", reverse=True, budget=b))
        out.append(dict(id="shift-%s-N%d" % (fam, min(N, 3)), family=fam, N=min(N, 3), mode="shift", rhs_mode="uf", budget=b))
        out.append(dict(id="reflect-%s-N%d" % (fam, min(N, 3)), family=fam, N=min(N, 3), mode="reflect", rhs_mode="uf", budget=b))
    # runs with events (events oracle): non-terminal events change nothing about the steps; after a terminal event the continuation again
    # takes the requested step
    for evs in ("n", "T"):
        out.append(dict(id="events-euler-%s-N2" % evs, family="euler", N=2, mode="events", events=[evs], dense=False, max_reports=2, kind="integrate", budget=b))
    return out


def _integrate(c, inst, a, kind, cap, P):
    cb = spans.cap_callback(c, cap, kind)
    st, r = run(a.integrate, callback=cb)
    if st == "exc":
        cause = getattr(r, "__cause__", None)
        if isinstance(cause, StepCap):
            c.check(P + ".terminates_within_bound", False, info=repr(cause))
        else:
            c.check(P + ".no_exception", False, info=repr(r) + " / " + repr(cause))
        return False
    return True


def scenario(c, inst):
    if inst.get("mode") == "events":
        from . import events_common as EC
        return EC.scenario(c, dict(inst, dt_le_span=True), {"C04"})
    t0, tf, dt0 = c.real("t0"), c.real("tf"), c.real("dt0")
    span, adt = spans.input_assumptions(c, inst, t0, tf, dt0)
    c.assume(adt <= span)
    kind = spans.FAMILIES[inst["family"]][2]
    shape = spans.FAMILIES[inst["family"]][1]
    mode = inst["mode"]
    cap = inst["N"] + 3
    if mode == "steps":
        rhs_in = None
        if inst.get("rhs_valueerror_at") is not None:
            from .common import FreshRhsWithJac
            rhs_in = (FreshRhsWithJac if kind == "implicit" else FreshRhs)(c, shape, fault_at=inst["rhs_valueerror_at"], fault_exc=ValueError("transient"))
        st, built = run(spans.build_system, c, inst, t0, tf, dt0, False, rhs_in)
        if st == "exc":
            c.check("c04.constructs", False, info=repr(built))
            return
        a, rhs, log = built
        with spans.stubs_for(c, inst, log["root"]):
            if not _integrate(c, inst, a, kind, cap, "c04"):
                return
        T = list(a.t)
        n = len(T)
        c.note("n_rows", n)
        steps = [absval(c, T[i + 1] - T[i]) for i in range(n - 1)]
        failed_solves = [e for e in log["root"] if not e["success"]]
        regions = {}
        if kind == "implicit" and len(steps) >= 2:
            # (historic: finding c04.implicit_step_growth, repaired by fix 82e5a77 - the key is no longer listed, so this region masks nothing
            # and the growth would be reported as a violation again)
            grow = [c.eq(steps[i + 1], GROWTH * steps[i], 1) for i in range(len(steps) - 2)]
            regions["c04.implicit_step_growth"] = c.all(grow) if grow else True
        if kind == "fixed" or not failed_solves:
            c.check("c04.non_final_steps_have_requested_size", c.all([c.eq(s, adt, 1) for s in steps[:-1]]), regions=regions)
            c.check("c04.no_step_longer_than_requested", c.all([c.le(s, adt, 1) for s in steps]), regions=regions)
        else:
            c.check("c04.no_step_longer_than_requested", c.all([c.le(s, adt, 1) for s in steps]), regions=regions)
        return

    if mode == "twocalls":
        # several integrate(t) calls: within every call all steps but its last have the requested magnitude, none is longer
        st, built = run(spans.build_system, c, inst, t0, tf, dt0)
        if st == "exc":
            c.check("c04.constructs", False, info=repr(built))
            return
        a, rhs, log = built
        if inst.get("reverse"):
            # the second call turns round: its target lies on the other side of the point the first call reached (back towards, onto
            # or beyond the original start time)
            T2 = c.real("T2")
            c.assume((T2 - tf) * (tf - t0) < 0)
            targets = (None, T2)
        else:
            T1 = c.real("T1")
            c.assume((T1 - t0) * (tf - T1) > 0)
            c.assume(adt <= absval(c, T1 - t0))
            c.assume(adt <= absval(c, tf - T1))
            targets = (T1, None)
        bounds = []
        for k, target in enumerate(targets):
            n0 = len(a.t)
            cb = spans.cap_callback(c, cap + 1, kind)
            if inst.get("reverse") and k == 1:
                # "dt <= span" for the return leg, measured from the time actually reached (which may stop a tolerance short of tf)
                here = a.t[-1]
                c.assume((T2 - here) * (tf - t0) < 0)
                c.assume(adt <= absval(c, T2 - here))
                c.assume(absval(c, T2 - here) <= inst["N"] * adt)
            st, r = run(a.integrate, callback=cb) if target is None else run(a.integrate, target, callback=cb)
            if st == "exc":
                cause = getattr(r, "__cause__", None)
                if isinstance(cause, StepCap):
                    c.check("c04.twocalls.terminates_within_bound", False, info=repr(cause))
                else:
                    c.check("c04.twocalls.no_exception", False, info=repr(r) + " / " + repr(cause))
                return
            bounds.append((n0 - 1, len(a.t) - 1))
        T = list(a.t)
        c.note("n_rows", len(T))
        for k, (i0, i1) in enumerate(bounds):
            steps = [absval(c, T[i + 1] - T[i]) for i in range(i0, i1)]
            c.check("c04.twocalls.non_final_steps_of_each_call_have_requested_size", c.all([c.eq(s_, adt, 1) for s_ in steps[:-1]]), info=dict(call=k, steps=len(steps)))
            c.check("c04.twocalls.no_step_longer_than_requested", c.all([c.le(s_, adt, 1) for s_ in steps]), info=dict(call=k))
        return

    # ---- product runs (shift / reflection): same autonomous uninterpreted rhs
    import desolver as de
    method = spans.FAMILIES[inst["family"]][0]
    n_state = int(np.prod(shape))
    y0 = c.array([c.real("y0_%d" % i) for i in range(n_state)]).reshape(shape)
    f = FreshRhs(c, shape, name="f", mode="uf", autonomous=True)

    def make(ta, tb, dt, rhs):
        a = de.OdeSystem(rhs, y0=y0, t=(ta, tb), dt=dt)
        a.method = method
        return a

    st, a = run(make, t0, tf, dt0, f)
    if st == "exc":
        c.check("c04.constructs", False, info=repr(a))
        return
    if not _integrate(c, inst, a, kind, cap, "c04.base"):
        return
    if mode == "shift":
        s = c.real("shift")
        c.assume(s <= 64)
        c.assume(s >= -64)
        st, b = run(make, t0 + s, tf + s, dt0, f)
        tag = "shift"
    else:
        def g(t, y, **kw):
            return -f(-t, y)
        st, b = run(make, -t0, -tf, -dt0, g)
        tag = "reflect"
    if st == "exc":
        c.check("c04.%s.constructs" % tag, False, info=repr(b))
        return
    if not _integrate(c, inst, b, kind, cap, "c04." + tag):
        return
    c.note("n_rows", (len(a.t), len(b.t)))
    same_len = len(a.t) == len(b.t)
    c.check("c04.%s.same_number_of_steps" % tag, same_len)
    if same_len:
        scale = 1
        if not c.symbolic:
            scale = max(1.0, float(np.max(np.abs(a.y))))
        conds = []
        for i in range(len(a.t)):
            for u, v in zip(flat(c, a.y[i]), flat(c, b.y[i])):
                conds.append(c.eq(u, v, scale))
        c.check("c04.%s.same_states" % tag, c.all(conds))
        if mode == "shift":
            c.check("c04.shift.times_shifted", c.all([c.eq(b.t[i], a.t[i] + s, 64) for i in range(len(a.t))]))
        else:
            c.check("c04.reflect.times_reflected", c.all([c.eq(b.t[i], -a.t[i], 64) for i in range(len(a.t))]))
