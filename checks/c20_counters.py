"""C20 - evaluation counters and callbacks are exact."""
from __future__ import annotations

import contextlib

import numpy as np

from . import spans
from .common import run, absval, flat, StepCap, FreshRhs, FreshRhsWithJac, InjectedFault, patched

PROPERTY = "C20"
LEVEL = "other"
EXPLANATION = (
    "An independent counter lives inside the user right-hand side (and inside the user Jacobian).  The real OdeSystem is driven "
    "symbolically (t0, tf, dt0 arbitrary reals; explicit, FSAL+rejections via the ctrl stub, splitting, implicit with user Jacobian "
    "and stubbed stage solver, implicit with the REAL finite-difference JacobianWrapper and a stage solver stub that evaluates the "
    "real residual; dense output on/off; injected faults; reset) and on every feasible path both counts are concrete integers: "
    "nfev must equal the completed user calls since construction / last reset at every callback invocation and at the end, njev "
    "the Jacobian requests.  Callbacks: invoked in the order given, after the new row is visible (t[-1] is the new time, len grew "
    "by one), exactly once per recorded step, and a step size assigned by a callback is the magnitude of the next attempted step "
    "(z3 decides the step-size relation for all real inputs of the path).")
ASSUMPTIONS = [
    "real arithmetic; |tf-t0| <= N*|dt0|, 1/64 <= |dt0| <= 256, |t0|,|tf| <= 64",
    "rhs = fresh symbols per call (or affine with symbolic state for the finite-difference family); ctrl stub (<= 1 rejection) for the "
    "embedded pair; verdict_root stub (implicit, user Jacobian) / residual-evaluating stub (implicit, finite differences)",
    "njev is read as 'Jacobian requests since construction' (reset() does not clear it and the property only names reset for nfev)",
]
BOUNDS = {"quick": dict(N=3), "thorough": dict(N=4)}
OUTSIDE = ["events: only the callback count / visibility under the events oracle (C20 events-* instances); nfev with events is not asserted", "torch backend"]


ASSUMPTIONS = list(globals().get("ASSUMPTIONS", [])) + [
    "callback-unsubscribes-itself: the first callback removes itself from the caller's list at its first invocation",
    "callback-dt-short-call-then-continuation: first call's target nearer than the working step, its callbacks assign dt = g <= remaining distance <= 2g",
]


def instances(tier):
    out = []
    N = 3 if tier == "quick" else 4
    b = dict(wall_s=80 if tier == "quick" else 600, max_paths=3000 if tier == "quick" else 30000)
    fams = ["euler", "rk4", "sympl_euler", "dopri45", "backward_euler"] if tier == "quick" else list(spans.FAMILIES)
    for fam in fams:
        kind = spans.FAMILIES[fam][2]
        n = N if kind == "fixed" else 2
        out.append(dict(id="counts-%s-N%d" % (fam, n), family=fam, N=n, mode="counts", dense=(fam in ("euler", "dopri45")), budget=b))
    # the caller's callbacks LIST is edited while the run is in progress (a monitor unsubscribes itself at its first invocation): the callbacks
    # the call was given are still invoked in the order given, once per recorded step
    out.append(dict(id="callback-unsubscribes-itself-euler-N3", family="euler", N=3, mode="counts", unsubscribe=True, budget=b))
    out.append(dict(id="callback-dt-euler-N2", family="euler", N=2, mode="cbdt", budget=b))
    out.append(dict(id="callback-dt-sympl_euler-N2", family="sympl_euler", N=2, mode="cbdt", budget=b))
    # the callbacks of a SHORT first call (target nearer than the working step) assign dt; the continuation call starts with that step
    out.append(dict(id="callback-dt-short-call-then-continuation-euler-N2", family="euler", N=2, mode="cbdt2", budget=b))
    out.append(dict(id="fault-reset-euler-N2", family="euler", N=2, mode="fault", budget=b))
    out.append(dict(id="fd-jacobian-backward_euler-N1", family="backward_euler", N=1, mode="fd", budget=b))
    # runs with events: the real event section of integrate (terminal event: rolled-back step re-taken in sub-steps) with the events oracle
    for evs, dense in (("T", True), ("nT", False)):
        out.append(dict(id="events-euler-%s-%s-N2" % (evs, "dense" if dense else "nodense"), family="euler", N=2, mode="events", events=list(evs), dense=dense,
                        max_reports=2, kind="integrate", budget=b))
    # two systems built on ONE rhs callable, used alternately: each system's counters count its own requests only
    for fam in ("euler", "backward_euler"):
        out.append(dict(id="two-systems-one-rhs-%s-N1" % fam, family=fam, N=1, mode="two_systems", budget=b))
    return out


def _two_systems(c, inst, t0, tf, dt0, kind, shape, cap):
    from .common import FreshRhsWithJac
    owner = ["A"]
    cnt = dict(A=[0, 0], B=[0, 0])

    class Shared(FreshRhsWithJac):
        def __call__(self, t, y, **kw):
            v = super().__call__(t, y, **kw)
            cnt[owner[0]][0] += 1
            return v

        def jac(self, t, y, **kw):
            v = super().jac(t, y, **kw)
            cnt[owner[0]][1] += 1
            return v
    rhs = Shared(c, shape)
    if kind != "implicit":
        rhs.jac = None          # plain callable without a Jacobian
        del rhs.jac
    sysd = {}

    def counters(tag):
        for w in ("A", "B"):
            if w in sysd:
                c.check("c20.two.nfev_counts_own_calls_only", sysd[w].nfev == cnt[w][0], info=dict(at=tag, system=w, nfev=sysd[w].nfev, counted=cnt[w][0]))
                if kind == "implicit":
                    c.check("c20.two.njev_counts_own_requests_only", sysd[w].njev == cnt[w][1], info=dict(at=tag, system=w, njev=sysd[w].njev, counted=cnt[w][1]))
    T1 = t0 + 0.5 * (tf - t0)          # the first leg of A stops half-way
    import desolver.utilities.optimizer as opt
    from .common import verdict_root_stub
    with (patched(opt, "nonlinear_roots", verdict_root_stub(c, success="true")) if kind == "implicit" else contextlib.nullcontext()):
        for step_ in ("build A", "A to T1", "build B", "B to tf", "A to tf"):
            w = step_[-1] if step_.startswith("build") else step_[0]
            owner[0] = w
            if step_.startswith("build"):
                st, built = run(spans.build_system, c, inst, t0, tf, dt0, False, rhs)
                if st != "ok":
                    c.check("c20.constructs", False, info=repr(built))
                    return
                sysd[w] = built[0]
                if kind == "implicit":
                    from .common import ctrl_stub
                    built[0].integrator.update_timestep = ctrl_stub(c, built[0].integrator, fixed=1.0)     # counters do not depend on the controller
            else:
                target = T1 if step_.endswith("T1") else None
                cb = [spans.cap_callback(c, cap + 2, kind)]
                st, r = run(sysd[w].integrate, target, callback=cb) if target is not None else run(sysd[w].integrate, callback=cb)
                if st != "ok":
                    return
            counters(step_)


def scenario(c, inst):
    if inst.get("mode") == "events":
        from . import events_common as EC
        return EC.scenario(c, inst, {"C20"})
    t0, tf, dt0 = c.real("t0"), c.real("tf"), c.real("dt0")
    span, adt = spans.input_assumptions(c, inst, t0, tf, dt0)
    fam = inst["family"]
    method, shape, kind = spans.FAMILIES[fam]
    mode = inst["mode"]
    cap = inst["N"] + 3
    rhs = None
    if mode == "two_systems":
        return _two_systems(c, inst, t0, tf, dt0, kind, shape, cap)
    if mode == "fd":
        # affine rhs with concrete coefficients, symbolic state: the real JacobianWrapper differentiates it
        class Affine:
            def __init__(self):
                self.completed = 0

            def __call__(self, t, y, **kw):
                v = 0.5 * y + 0.25
                self.completed += 1
                return v
        rhs = Affine()
    elif mode == "fault":
        rhs = FreshRhs(c, shape)
    st, built = run(spans.build_system, c, inst, t0, tf, dt0, inst.get("dense", False), rhs)
    if st != "ok":
        c.check("c20.constructs", False, info=repr(built))
        return
    a, rhs, log = built
    c.check("c20.nfev_after_construction", a.nfev == rhs.completed, info=dict(nfev=a.nfev, counted=rhs.completed))
    seq = []

    def mk_cb(tag):
        def cb(system):
            seq.append(dict(tag=tag, rows=len(system.t), t=system.t[-1], nfev=system.nfev, counted=rhs.completed))
        return cb
    capcb = spans.cap_callback(c, cap, kind)

    if mode == "fd":
        import desolver.utilities.optimizer as opt

        def residual_stub(f, x0, jac=None, tol=None, verbose=False, maxiter=200, use_scipy=True, additional_args=tuple(),
                          additional_kwargs=dict(), var_bounds=None):
            r0 = f(x0, *additional_args)          # the real residual: evaluates the user rhs through DiffRHS
            if jac is not None:
                jac(x0, *additional_args)         # the real block Jacobian (uses the cached finite-difference rhs Jacobian)
            K = c.uf("Kroot", [], int(np.prod(np.shape(x0))), fresh=True)
            return c.array(K).reshape(np.shape(x0)), (True, 1, 1, 1, 0.0)
        with patched(opt, "nonlinear_roots", residual_stub):
            st, r = run(a.integrate, callback=[mk_cb("A"), capcb])
        if st != "ok":
            cause = getattr(r, "__cause__", None)
            c.check("c20.fd.no_exception", False, info=repr(r) + " / " + repr(cause))
            return
        c.check("c20.nfev_equals_completed_user_calls", a.nfev == rhs.completed, info=dict(nfev=a.nfev, counted=rhs.completed))
        c.check("c20.njev_counts_requests", a.njev >= 1)
        for e in seq:
            c.check("c20.nfev_exact_at_every_callback", e["nfev"] == e["counted"], info=dict(e=repr(e)[:120]))
        return

    with spans.stubs_for(c, inst, log["root"]):
        if mode == "counts":
            cbs = [mk_cb("A"), mk_cb("B"), capcb]
            if inst.get("unsubscribe"):
                first = cbs[0]

                def unsubscribing(system):
                    first(system)
                    if unsubscribing in cbs:
                        cbs.remove(unsubscribing)       # the user's own list, not the call's
                cbs[0] = unsubscribing
            st, r = run(a.integrate, callback=cbs)
            if st != "ok":
                return   # failures: C12
            T = list(a.t)
            c.note("n_rows", len(T))
            c.check("c20.nfev_equals_completed_user_calls", a.nfev == rhs.completed, info=dict(nfev=a.nfev, counted=rhs.completed))
            if hasattr(rhs, "jac_calls"):
                c.check("c20.njev_equals_jacobian_requests", a.njev == len(rhs.jac_calls), info=dict(njev=a.njev, counted=len(rhs.jac_calls)))
                # detaching the Jacobian afterwards is not a request and forgets none
                n_before = a.njev
                st_u, r_u = run(a.equ_rhs.unhook_jacobian_call)
                c.check("c20.njev_unchanged_by_unhook", st_u == "ok" and a.njev == n_before, info=dict(before=n_before, after=a.njev, st=st_u))
            c.check("c20.callbacks_once_per_recorded_step", len(seq) == 2 * (len(T) - 1), info=dict(calls=len(seq), rows=len(T)))
            order_ok = all(seq[i]["tag"] == ("A" if i % 2 == 0 else "B") for i in range(len(seq)))
            c.check("c20.callbacks_in_given_order", order_ok)
            vis = []
            for i, e in enumerate(seq):
                k = i // 2 + 1
                vis.append(e["rows"] == k + 1)
                c.check("c20.nfev_exact_at_every_callback", e["nfev"] == e["counted"], info=dict(i=i))
            c.check("c20.callback_sees_new_row", all(vis), info=dict(rows=[e["rows"] for e in seq]))
            if len(seq) == 2 * (len(T) - 1):
                c.check("c20.callback_sees_new_time", c.all([c.eq(seq[i]["t"], T[i // 2 + 1]) for i in range(len(seq))]))
            return
        if mode == "cbdt":
            g = c.real("g")
            c.assume(g >= 1.0 / 64)
            c.assume(g <= 256)
            state = dict(n=0)

            def setdt(system):
                state["n"] += 1
                if state["n"] == 1:
                    system.dt = g
            st, r = run(a.integrate, callback=[setdt, capcb])
            if st != "ok":
                cause = getattr(r, "__cause__", None)
                if isinstance(cause, StepCap):
                    c.note("outcome", "step cap (g small)")
                return
            T = list(a.t)
            c.note("n_rows", len(T))
            if len(T) >= 3:
                s2 = absval(c, T[2] - T[1])
                remaining = absval(c, tf - T[1])
                # the step after the callback has the assigned magnitude, unless it is the clamped final step
                ok = c.any([c.all([c.le(g, remaining, 1), c.eq(s2, g)]), c.all([c.le(remaining, g, 1), c.eq(s2, remaining)])])
                c.check("c20.dt_assigned_by_callback_is_next_step", ok, info=dict(rows=len(T)))
            return
        if mode == "cbdt2":
            g = c.real("g")
            T1 = c.real("T1")
            c.assume((T1 - t0) * (tf - T1) > 0)
            c.assume(absval(c, T1 - t0) >= 1.0 / 64)
            c.assume(absval(c, T1 - t0) < absval(c, dt0))            # short call: the target is nearer than the working step
            c.assume(g >= 1.0 / 64)
            c.assume(g <= absval(c, tf - T1))                        # the assigned step fits into the continuation
            c.assume(absval(c, tf - T1) <= 2 * g)

            def setdt(system):
                system.dt = g
            st, r = run(a.integrate, T1, callback=[setdt, capcb])
            if st != "ok":
                return
            n1 = len(a.t)
            st, r = run(a.integrate, callback=[spans.cap_callback(c, cap + 2, kind)])
            if st != "ok":
                return
            T = list(a.t)
            c.note("n_rows", len(T))
            if len(T) > n1:
                c.check("c20.dt_assigned_by_callback_is_first_step_of_the_continuation", c.eq(absval(c, T[n1] - T[n1 - 1]), g), info=dict(rows=len(T), n1=n1))
            return
        if mode == "fault":
            # a fault at an arbitrary later call, then reset, then a clean run
            ncalls_clean = None
            k = inst.get("fault_at", 3)
            rhs.fault_at = k
            st, r = run(a.integrate, callback=[capcb])
            c.check("c20.nfev_counts_only_completed_calls_after_fault", a.nfev == rhs.completed, info=dict(nfev=a.nfev, counted=rhs.completed, st=st))
            rhs.fault_at = None
            base = rhs.completed
            run(a.reset)
            c.check("c20.nfev_zero_after_reset", a.nfev == 0, info=dict(nfev=a.nfev))
            st, r = run(a.integrate, callback=[spans.cap_callback(c, cap, kind)])
            if st == "ok":
                c.check("c20.nfev_counts_since_reset", a.nfev == rhs.completed - base, info=dict(nfev=a.nfev, counted=rhs.completed - base))
            return
