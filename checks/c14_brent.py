"""C14 - bracketing root finders: brentsroot / brentsrootvec return a point of the bracket, report success iff a sign
change was located, and agree with each other.

Real code executed symbolically: desolver.utilities.optimizer.brentsroot, brentsrootvec (unmodified, imported from /repo).
"""
from __future__ import annotations

import math
from fractions import Fraction

import numpy as np

from .common import run, absval, flat

PROPERTY = "C14"
LEVEL = "other"
KEY = "c14.absolute_residual_success"
KEY_VEC = "c14.vec_unbracketed_result"
EPS64 = float(np.finfo(np.float64).eps)
TOL_MIN = 4 * EPS64          # = D.epsilon(float64), the floor the code applies to tol
TOL_MAX = 1e-3
CAP = 64                     # iteration cap of the code under test (counts function evaluations, starts at 3)

EXPLANATION = (
    "The real brentsroot and brentsrootvec are executed on symbolic reals: bracket end a, signed width w != 0 (b = a + w, either "
    "order), tolerance tol symbolic in [4*eps64, 1e-3] (also: None = the code's default, and [eps64, 4*eps64) which the code "
    "raises to its floor), and a test function whose parameters are solver variables - linear s*(x - r) with s from the scale "
    "sweep +-{1e-6, 1e-3, 1, 10, 1e3, 1e9} (and instances with s symbolic in that range) and root r = a + rho*w inside / outside / "
    "at an end point of the bracket; jump functions (-u for x < r, +v otherwise, u, v > 0 symbolic, 1e-6 <= u+v <= 1e9: the "
    "real-arithmetic model of a function steeper than tol can resolve), evaluated with a forking `if` and, in separate "
    "instances, as an if-then-else term; two-root quadratics s*(x-r1)*(x-r2) in the thorough tier.  Every `if`/`while`/mask of "
    "the solver forks; all feasible paths under the unwinding assumption |w| <= 2^k*tol are enumerated and on each path z3 is "
    "asked for parameter values violating: (1) point in the closed bracket, or no success claimed; (2) f(a)*f(b) < 0 => point in "
    "the bracket and within tol of a sign change of f, and success reported; (3) success => |f(x)| <= tol or a sign change "
    "within tol of x; (4) no sign change in the closed bracket and |f| > tol at both ends => no success (and, separately, the "
    "literal reading f(a)*f(b) > 0 => no success); the loop is left by convergence, not by the 64-evaluation cap (unwinding "
    "assertion); (5) vector solver (1..3 components, list of callables with per-component parameters, shared or per-component "
    "brackets) returns the same point and the same flag as the scalar solver per component; both return statements (plain and "
    "return_interval) are exercised.  Known findings: (2)-success and the literal (4) fail because success is the absolute test "
    "|f(b)| <= tol (key c14.absolute_residual_success: the region admits only 'point correct, flag wrong'); (5) fails only on "
    "brackets without sign change, where the scalar solver answers (inf, False) and the vector solver an end point (key "
    "c14.vec_unbracketed_result); under f(a)*f(b) < 0 agreement is discharged on every path.  Separate floating-point lemma, "
    "decided by z3's QF_FP theory (bit-precise IEEE, round-to-nearest-even): 'for all floats s, d (|s| <= 1000) and adjacent "
    "floats x0 < x1 in (1/2, 2) with fl(s*x0 - d) < 0 < fl(s*x1 - d), one of the two residuals is <= tol = 4*eps(dtype)' - z3 "
    "returns a counterexample (no representable point can meet the success test although the sign change is bracketed to the "
    "last bit); the witness is replayed on the real brentsroot in that dtype and transported to float64 on the real code.")
ASSUMPTIONS = [
    "wide-bracket instances (jump-wide-*): concrete bracket [-1/4, -1/4 +- 2^K*tol] with the default tolerance, jump of unit height at a + rho*w with rho symbolic in "
    "[rho0, rho0 + 2^-(K+3)] (a window of tol/8), rho0 in {3/10, 5/16, 1/3, 1/1024, 1023/1024}: the long run of ~K halvings is decided for every jump position of the window",
    "fp-overflow instances: z3 (QF_FP) chooses s, d, a < b in float16 / float32 with f(x) = fl(fl(s*x) - d) finite and of opposite sign at both ends and fl(f(a)*f(b)) infinite; "
    "the REAL solvers run on that witness in that dtype (a solver-chosen corner, not a statement over all floats)",
    "real arithmetic (IEEE rounding only in the separate QF_FP lemma); every float constant enters with its exact binary value",
    "unwinding assumption |b - a| <= 2^k * tol (k per instance, see bounds / instance ids); the check 'terminates before the "
    "iteration cap' fails if the 64-evaluation cap is reached under it",
    "test functions restricted to the families linear / jump / two-root quadratic with the stated parameter ranges "
    "(root position rho = (r - a)/(b - a) in [-4, 5]); |a| <= 1 (keeps float replays meaningful); tol in [4*eps64, 1e-3]",
    "a tolerance below 4*eps64 is raised by the code to that floor: the clauses are then asserted for the floor (the effective tolerance)",
    "'root at an end point' in clause (4) is read as |f(end)| <= tol (consistent with clause (3)); the literal reading "
    "f(a)*f(b) > 0 is checked separately (c14.no_sign_change_no_success_literal) and hits the known finding for flat functions",
    "a 'sign change of f' is the root r of the linear family, the jump position r, either root of the quadratic (r1 != r2)",
    "vector instances marked oracle=False assert only the agreement with the scalar solver (clauses (1)-(4) are asserted on the "
    "scalar result in the scalar instances and on the vector result in the remaining vector instances)",
]
BOUNDS = {
    "quick": dict(halvings_k="scalar: 4 (linear), 3 (jump); vector: 3/2 (1 component), 2 (2 components linear), 1 (2 components jump, "
                             "3 components linear), 0 (per-component brackets jump, 3 components jump)",
                  vector_lengths="1..3", scales="+-{1e-6, 1e-3, 1, 10, 1e3, 1e9} concrete; symbolic in [1e-6, 1e9] of either sign",
                  fp_lemma="float16, float32 (60 s each)"),
    "thorough": dict(halvings_k="scalar: 8 (linear), 7 (jump), 1 (quadratic); vector: 8/4 (1 component), 3 (2 components linear), "
                                "2 (2 components jump, 3 components linear), 1 (per-component brackets jump), 0 (3 components jump)",
                     vector_lengths="1..3", scales="as quick; quadratics 1, -1e3", fp_lemma="float16, float32, float64"),
}
OUTSIDE = ["general continuous functions (only the families above); quadratic instances may end inconclusive (quotient terms)",
           "float64 bit-level behaviour of the full loop (only the acceptance predicate of the return statement is treated "
           "bit-precisely)", "vector lengths 4..16", "callable (non-list) form of brentsrootvec and accepts_mask",
           "brackets wider than 2^k * tol with symbolic width (wide brackets are covered for the concrete widths 2^K*tol of the jump-wide instances only)",
           "NaN/inf function values or bracket ends; zero-width brackets"]

SCALES = [1e-6, 1e-3, 1.0, 10.0, 1e3, 1e9]


# ----------------------------------------------------------------------------------------------------------------------
# instances


def _tag(s):
    if s == "sym":
        return "ssym"
    return ("m" if s < 0 else "p") + ("%g" % abs(s)).replace("+", "").replace("-", "n").replace(".", "_")


def _short(v):
    return {"inside": "in", "outside": "out", "notinside": "nin", "end": "end", "any": "any"}[v]


def _vec(fam, roots, k, bounds="shared", wsign=None, budget=None, oracle=True, interval=True, half=None):
    n = len(roots)
    ws = "" if wsign is None else "-w" + "".join("p" if x > 0 else "m" for x in (wsign if isinstance(wsign, list) else [wsign]))
    if half:
        ws += "-" + half
    return dict(id="vec%d-%s-%s-%s-k%d%s" % (n, fam, bounds, "_".join(_short(r) for r in roots), k, ws), family=fam, half=half,
                scale="sym" if fam == "jump" else [1e3, -1.0, 1e-3][:n], root=list(roots), k=k, tol="sym", nvec=n, bounds=bounds,
                wsign=wsign, oracle=oracle, interval=interval, budget=budget)


def instances(tier):
    q = tier == "quick"
    out = []
    bq = dict(wall_s=60 if q else 840, max_paths=4000 if q else 200000, max_branches=3000)
    k_lin = 4 if q else 8
    k_jump = 3 if q else 7
    # ---- scalar solver, linear family: scale sweep x root position
    for s in SCALES + [-x for x in SCALES]:
        for root in ("inside", "outside", "end"):
            out.append(dict(id="lin-%s-%s-k%d" % (_tag(s), root, k_lin), family="linear", scale=s, root=root, k=k_lin, tol="sym",
                            nvec=0, budget=bq))
    for root in ("inside", "outside", "end"):
        out.append(dict(id="lin-ssym-%s-k%d" % (root, k_lin), family="linear", scale="sym", root=root, k=k_lin, tol="sym", nvec=0, budget=bq))
    out.append(dict(id="lin-p1000-inside-k%d-toldefault" % k_lin, family="linear", scale=1e3, root="inside", k=k_lin, tol=None, nvec=0,
                    interval=False, budget=bq))
    # ---- scalar solver, jump family (symbolic heights u, v)
    for root in ("inside", "notinside"):
        for ws in ((None,) if q or root == "notinside" else (1, -1)):
            out.append(dict(id="jump-%s-k%d%s" % (root, k_jump, "" if ws is None else "-w" + "pm"[ws < 0]), family="jump", scale="sym", root=root,
                            k=k_jump, tol="sym", nvec=0, wsign=ws, budget=bq))
    out.append(dict(id="lin-p1000-inside-k%d-tolsmall" % k_lin, family="linear", scale=1e3, root="inside", k=k_lin, tol="small", nvec=0, budget=bq))
    out.append(dict(id="jump-inside-k3-tolsmall", family="jump", scale="sym", root="inside", k=3, tol="small", nvec=0, budget=bq))
    out.append(dict(id="jump-inside-k3-toldefault", family="jump", scale="sym", root="inside", k=3, tol=None, nvec=0, interval=False, budget=bq))
    for root in ("inside", "notinside"):       # the same family written as an if-then-else term instead of a forking `if`
        out.append(dict(id="jump-ite-%s-k%d" % (root, 3 if q else 4), family="jump", scale="sym", root=root, k=3 if q else 4, tol="sym",
                        nvec=0, ite=True, budget=bq))
    # ---- WIDE brackets (jump of unit height): the width is the concrete value 2^K * tol (K = 40 ... 72, default tolerance), the jump
    # position a symbolic point of a window narrower than tol/8 placed at several places of the bracket: almost every comparison of
    # the ~K halvings is decided for the whole window, so the long run stays a handful of paths.  The scalar and the vector solver.
    for K in ((40, 66) if q else (40, 56, 62, 66, 72)):
        for rho0 in (("3/10", "5/16") if q else ("3/10", "5/16", "1/3", "1/1024", "1023/1024")):
            for ws in ((1,) if q else (1, -1)):
                for nv in (0, 1):
                    out.append(dict(id="jump-wide%s-K%d-rho%s-w%s" % ("-vec" if nv else "", K, rho0.replace("/", "_"), "pm"[ws < 0]), family="jump", scale="unit",
                                    root="window", rho0=rho0, wideK=K, k=K, tol=None, nvec=nv, a=-0.25, wsign=ws, interval=True, bounds="shared",
                                    budget=dict(bq, max_branches=20000)))
    # ---- vector solver against the scalar one (instances split by root position / bracket orientation for parallelism)
    if q:
        out.append(_vec("linear", ["any"], 3, budget=bq, interval=False))
        out.append(_vec("jump", ["any"], 2, budget=bq, interval=False))
        for roots in (["inside", "inside"], ["inside", "outside"], ["outside", "inside"], ["end", "inside"]):
            out.append(_vec("linear", roots, 2, budget=bq))
        for roots in (["inside", "inside"], ["inside", "outside"]):
            out.append(_vec("linear", roots, 2, bounds="percomp", budget=bq))
        for ws in (1, -1):
            # (oracle=False: only the agreement with the scalar solver is asserted; the clauses themselves are asserted on the
            #  scalar result in the scalar instances and on the vector result in the other vector instances)
            out.append(_vec("jump", ["inside", "inside"], 1, wsign=ws, budget=bq, oracle=False))
            out.append(_vec("jump", ["inside", "notinside"], 1, wsign=ws, budget=bq))
            out.append(_vec("linear", ["inside", "inside", "outside"], 1, wsign=ws, budget=bq))
        for ws in ([1, 1], [1, -1]):
            out.append(_vec("jump", ["inside", "inside"], 0, bounds="percomp", wsign=ws, budget=bq))
        out.append(_vec("jump", ["inside", "inside", "outside"], 0, wsign=1, budget=dict(bq, wall_s=80), oracle=False))
    else:
        out.append(_vec("linear", ["any"], 8, budget=bq, interval=False))
        out.append(_vec("jump", ["any"], 4, budget=bq, interval=False))
        out.append(_vec("linear", ["any", "any"], 3, budget=bq))
        out.append(_vec("linear", ["any", "any"], 3, bounds="percomp", budget=bq))
        for ws in (1, -1):
            for half in ("lo", "hi"):       # component 0: root in the first / second half of the bracket
                out.append(_vec("jump", ["inside", "inside"], 2, wsign=ws, budget=bq, oracle=False, half=half))
            out.append(_vec("jump", ["inside", "notinside"], 2, wsign=ws, budget=bq))
            for r0 in ("inside", "outside", "end"):
                out.append(_vec("linear", [r0, "any", "any"], 2, wsign=ws, budget=bq))
            out.append(_vec("jump", ["inside", "inside", "inside"], 0, wsign=ws, budget=bq, oracle=False))
            out.append(_vec("jump", ["inside", "inside", "notinside"], 0, wsign=ws, budget=bq))
        for ws in ([1, 1], [1, -1], [-1, 1], [-1, -1]):
            out.append(_vec("jump", ["inside", "inside"], 1, bounds="percomp", wsign=ws, budget=bq))
    # ---- two-root quadratics (thorough only; the inverse-quadratic step leaves quotient terms: may end inconclusive)
    if not q:
        bquad = dict(wall_s=400, max_paths=20000, max_branches=3000)
        for (s, roots) in ((1.0, ("one-inside", "both-inside", "none-inside")), (-1e3, ("one-inside",))):
            for root in roots:
                for ws in (1, -1):
                    out.append(dict(id="quad-%s-%s-k1-w%s" % (_tag(s), root, "pm"[ws < 0]), family="quadratic", scale=s, root=root, k=1, tol="sym",
                                    nvec=0, wsign=ws, budget=bquad))
    # ---- floating-point lemma (QF_FP)
    for dt in (("float16", "float32") if q else ("float16", "float32", "float64")):
        t = 60 if q else 700
        out.append(dict(id="fp-lemma-%s" % dt, family="fp", dtype=dt, timeout_s=t, budget=dict(wall_s=t + 30, max_paths=4)))
        # the same lemma for larger |x| (an absolute tolerance on x cannot be met once ulp(x) >= tol)
        for lo, hi in ((4.0, 8.0), (64.0, 128.0), (-2.0, -0.5), (-8.0, -4.0), (-128.0, -64.0)):
            out.append(dict(id="fp-lemma-%s-x%g-%g" % (dt, lo, hi), family="fp", dtype=dt, timeout_s=t, xlo=lo, xhi=hi, budget=dict(wall_s=t + 30, max_paths=4)))
    # ---- floating-point corner: function values so large that the products formed by the interpolation formulas overflow the dtype
    # (inf/inf = NaN interpolants); z3 (QF_FP) picks the function and the bracket, the REAL solvers run on it in that dtype
    for dt in ("float16", "float32"):
        for variant in (("pos", "neg") if q else ("pos", "neg", "near-a", "near-b")):
            out.append(dict(id="fp-overflow-%s-%s" % (dt, variant), family="fpovf", dtype=dt, variant=variant, timeout_s=60 if q else 300,
                            budget=dict(wall_s=(60 if q else 300) + 30, max_paths=4)))
    out.sort(key=_cost, reverse=True)      # the pool starts instances in list order: expensive ones first
    return out


def _cost(i):
    """rough single-core seconds (measured), only used to order the work list"""
    fam, n, k = i["family"], i.get("nvec", 0), i.get("k", 0)
    if fam in ("fp", "fpovf"):
        return 1e6          # cheap, but first: their samples (witness, real-code runs) then appear in the evidence
    if fam == "quadratic":
        return 400.0
    if n == 0:
        return 3.0 if fam == "linear" else 20.0 * 2.2 ** (k - 3)
    if fam == "linear":
        return {1: 5.0, 2: 40.0, 3: 100.0}[n] * (2.0 if "any" in i["root"] else 1.0)
    return {1: 0.3, 2: 8.0, 3: 100.0}[n] * 6.0 ** k * (0.5 if not i.get("oracle", True) else 1.0)


# ----------------------------------------------------------------------------------------------------------------------
# number helpers (symbolic / float generic)


def _num(c, v):
    """0-d array / scalar handed over by the code under test -> engine number (SymReal | np.float64); non-finite floats pass"""
    if isinstance(v, np.ndarray):
        if v.size != 1:
            raise TypeError("scalar expected, got shape %r" % (v.shape,))
        v = v.reshape(-1)[0]
    if isinstance(v, (float, np.floating)) and not math.isfinite(v):
        return float(v)
    if c.symbolic:
        from srx import core
        return core.as_symreal(v)
    return np.float64(v)


def _finite(v):
    return not (isinstance(v, (float, np.floating)) and not math.isfinite(v))


def _flag(c, v):
    """success flag (python bool / numpy bool / SymBool / 0-d array of these) -> bool | SymBool"""
    if isinstance(v, np.ndarray):
        if v.size != 1:
            raise TypeError("scalar flag expected, got shape %r" % (v.shape,))
        v = v.reshape(-1)[0]
    if isinstance(v, (bool, np.bool_)):
        return bool(v)
    if c.symbolic:
        from srx import core
        r = core.as_symbool(v)
        if r is NotImplemented:
            raise TypeError("not a truth value: %r" % (type(v),))
        return r
    return bool(v)


def _not(c, b):
    return (not b) if isinstance(b, bool) else ~b


def _implies(c, p, q):
    return c.any([_not(c, p), q])


def _iff(c, p, q):
    return c.all([_implies(c, p, q), _implies(c, q, p)])


# ----------------------------------------------------------------------------------------------------------------------
# function families: plain python on the engine's numbers


class _Fn:
    def __init__(self, c):
        self.c = c
        self.calls = 0

    def __call__(self, x):
        self.calls += 1
        x = _num(self.c, x)
        if not _finite(x):
            return float("nan")
        return self.val(x)


class Linear(_Fn):
    """f(x) = s*(x - r)"""

    def __init__(self, c, s, r):
        super().__init__(c)
        self.s, self.r = s, r

    def val(self, x):
        return self.s * (x - self.r)

    def near(self, x, tol):
        """f changes sign within tol of x"""
        return self.c.le(absval(self.c, x - self.r), tol)

    def sign_change_in(self, lo, hi):
        """f takes both signs, or is zero, somewhere in the closed interval"""
        return self.c.all([self.c.le(lo, self.r), self.c.le(self.r, hi)])


class Jump(_Fn):
    """f(x) = -u for x < r, +v for x >= r  (u, v > 0)"""

    def __init__(self, c, u, v, r, ite=False):
        super().__init__(c)
        self.u, self.v, self.r, self.ite = u, v, r, ite

    def val(self, x):
        if self.c.symbolic and self.ite:
            from srx import core
            return core.sym_ite(x < self.r, -self.u, self.v)
        return -self.u if bool(x < self.r) else self.v

    def near(self, x, tol):
        return self.c.le(absval(self.c, x - self.r), tol)

    def sign_change_in(self, lo, hi):
        return self.c.all([self.c.lt(lo, self.r), self.c.le(self.r, hi)])


class Quadratic(_Fn):
    """f(x) = s*(x - r1)*(x - r2), r1 != r2"""

    def __init__(self, c, s, r1, r2):
        super().__init__(c)
        self.s, self.r1, self.r2 = s, r1, r2

    def val(self, x):
        return self.s * (x - self.r1) * (x - self.r2)

    def near(self, x, tol):
        c = self.c
        return c.any([c.le(absval(c, x - self.r1), tol), c.le(absval(c, x - self.r2), tol)])

    def sign_change_in(self, lo, hi):
        c = self.c
        return c.any([c.all([c.le(lo, self.r1), c.le(self.r1, hi)]), c.all([c.le(lo, self.r2), c.le(self.r2, hi)])])


# ----------------------------------------------------------------------------------------------------------------------
# scenario pieces


def _tolerance(c, inst):
    """(value handed to the solver, value the oracle uses)"""
    t = inst.get("tol", "sym")
    if t is None:
        return None, TOL_MIN
    if t == "small":       # below the floor the code applies (tol < D.epsilon -> D.epsilon): the effective tolerance is the floor
        tol = c.real("tol")
        c.assume(tol >= EPS64)
        c.assume(tol < TOL_MIN)
        return tol, TOL_MIN
    if t == "sym":
        tol = c.real("tol")
        c.assume(tol >= TOL_MIN)
        c.assume(tol <= TOL_MAX)
        return tol, tol
    return float(t), float(t)


def _bracket(c, inst, tol, suffix="", idx=0):
    w = c.real("w" + suffix)
    if inst.get("a") is not None:
        if c.symbolic:
            from srx import core
            a = core.as_symreal(float(inst["a"]))
        else:
            a = np.float64(inst["a"])
    else:
        a = c.real("a" + suffix)
        c.assume(a >= -1)
        c.assume(a <= 1)
    ws = inst.get("wsign")
    if isinstance(ws, list):
        ws = ws[idx]
    if ws:
        c.assume(w > 0 if ws > 0 else w < 0)
    else:
        c.assume(w != 0)
    K = float(2 ** inst["k"])
    if inst.get("wideK"):
        # concrete width (exactly 2^K * tol, sign per instance)
        c.assume(c.eq(w, (1 if ws > 0 else -1) * K * tol))
        wv = (1 if ws > 0 else -1) * K * tol
        if c.symbolic:
            from srx import core
            return a, core.as_symreal(float(wv))
        return a, np.float64(wv)
    c.assume(w <= K * tol)
    c.assume(w >= -K * tol)
    return a, w


def _rho(c, name, variant):
    rho = c.real(name)
    if variant == "inside":
        c.assume(rho > 0)
        c.assume(rho < 1)
    elif variant == "outside":
        c.assume(c.any([rho < 0, rho > 1]))
        c.assume(rho >= -4)
        c.assume(rho <= 5)
    elif variant == "notinside":
        c.assume(c.any([rho <= 0, rho >= 1]))
        c.assume(rho >= -4)
        c.assume(rho <= 5)
    elif isinstance(variant, tuple) and variant[0] == "window":
        lo = Fraction(variant[1])
        hi = lo + Fraction(1, 2 ** (variant[2] + 3))       # window width * bracket width = tol/8
        if c.symbolic:
            c.assume(rho >= lo)
            c.assume(rho <= hi)
        else:
            c.assume(c.le(float(lo), rho, 1))
            c.assume(c.le(rho, float(hi), 1))
    elif variant == "end":
        c.assume(c.any([c.eq(rho, 0), c.eq(rho, 1)]))
    else:
        c.assume(rho >= -4)
        c.assume(rho <= 5)
    return rho


def _make_fn(c, inst, a, w, idx=0, scale=None, root=None):
    fam = inst["family"]
    sfx = "" if idx == 0 else "_%d" % idx
    if scale is None:
        scale = inst["scale"]
    if root is None:
        root = inst["root"]
    if fam == "linear":
        if scale == "sym":
            s = c.real("s" + sfx)
            c.assume(c.any([c.all([s >= 1e-6, s <= 1e9]), c.all([s <= -1e-6, s >= -1e9])]))
        else:
            s = float(scale)
        rho = _rho(c, "rho" + sfx, root)
        return Linear(c, s, a + rho * w)
    if fam == "jump" and scale == "unit":
        rho = _rho(c, "rho" + sfx, ("window", inst["rho0"], inst["wideK"]))
        return Jump(c, 1.0, 1.0, a + rho * w)
    if fam == "jump":
        T = c.real("T" + sfx)
        lam = c.real("lam" + sfx)
        c.assume(T >= 1e-6)
        c.assume(T <= 1e9)
        c.assume(lam > 0)
        c.assume(lam < 1)
        rho = _rho(c, "rho" + sfx, root)
        return Jump(c, T * lam, T * (1 - lam), a + rho * w, ite=bool(inst.get("ite")))
    if fam == "quadratic":
        s = float(scale)
        r1, r2 = c.real("rho1" + sfx), c.real("rho2" + sfx)
        c.assume(r1 < r2)
        c.assume(r1 >= -4)
        c.assume(r2 <= 5)
        v = root
        in1 = c.all([r1 >= 0, r1 <= 1])
        in2 = c.all([r2 >= 0, r2 <= 1])
        if v == "one-inside":
            c.assume(c.any([c.all([in1, _not(c, in2)]), c.all([in2, _not(c, in1)])]))
        elif v == "both-inside":
            c.assume(c.all([in1, in2]))
        else:
            c.assume(c.all([_not(c, in1), _not(c, in2)]))
        return Quadratic(c, s, a + r1 * w, a + r2 * w)
    raise ValueError(fam)


def _between(c, lo, x, hi):
    return c.all([c.le(lo, x), c.le(x, hi)])


def _oracle(c, P, fn, a, b, tol, x, ok, interval=None, ncalls=None):
    """the C14 assertions for one (function, bracket, result)"""
    fa, fb = fn.val(a), fn.val(b)
    bracketed = c.lt(fa * fb, 0)
    end_root = c.any([c.eq(fa, 0), c.eq(fb, 0)])
    if not _finite(x):
        # the scalar solver's 'no bracket' answer: (inf, False)
        c.check(P + ".point_in_bracket_or_no_success", _not(c, ok))
        c.check(P + ".bracketed_point_in_bracket", _not(c, bracketed))
        c.check(P + ".bracketed_success_reported", _not(c, bracketed))
        c.check(P + ".end_point_root_is_found", _not(c, end_root))
        return
    inside = c.any([_between(c, a, x, b), _between(c, b, x, a)])
    fx = fn.val(x)
    small = c.le(absval(c, fx), tol)
    near = fn.near(x, tol)
    # (1)
    c.check(P + ".point_in_bracket_or_no_success", c.any([inside, _not(c, ok)]))
    c.check(P + ".bracketed_point_in_bracket", _implies(c, bracketed, inside))
    # (2) split: location, then the flag
    c.check(P + ".bracketed_point_within_tol_of_sign_change", _implies(c, bracketed, near))
    only_flag_wrong = c.all([inside, near, _not(c, ok), _not(c, small)])
    c.check(P + ".bracketed_success_reported", _implies(c, bracketed, ok), regions={KEY: only_flag_wrong})
    # a root sitting exactly on an end point of the bracket is a root in the bracket: located and reported
    c.check(P + ".end_point_root_is_found", _implies(c, end_root, c.all([inside, ok, c.any([small, near])])))
    # (3)
    c.check(P + ".success_means_root_within_tol", _implies(c, ok, c.any([small, near])))
    # (4) no sign change in the bracket and no end-point root (to within tol) => no success
    nosc = c.all([_not(c, fn.sign_change_in(a, b)), _not(c, fn.sign_change_in(b, a))])
    big_ends = c.all([_not(c, c.le(absval(c, fa), tol)), _not(c, c.le(absval(c, fb), tol))])
    c.check(P + ".no_sign_change_no_success", _implies(c, c.all([nosc, big_ends]), _not(c, ok)))
    # literal reading: f(a) != 0 != f(b).  Success is then claimed only because the residual is small in absolute terms
    flat_success = c.all([ok, small, inside])
    c.check(P + ".no_sign_change_no_success_literal", _implies(c, c.all([nosc, c.lt(0, fa * fb)]), _not(c, ok)),
            regions={KEY: flat_success})
    # unwinding assertion: under |b - a| <= 2^k * tol the loop must be left by convergence, not by the evaluation cap
    capped = ncalls is not None and ncalls >= CAP
    if not capped:
        left_by_convergence = True
    elif interval is not None:
        ia, ib = _num(c, interval[0]), _num(c, interval[1])
        left_by_convergence = c.any([c.eq(fn.val(ib), 0), c.lt(absval(c, ib - ia), tol)])
    else:
        left_by_convergence = False
    c.check(P + ".terminates_before_the_iteration_cap", left_by_convergence, info=dict(function_evaluations=ncalls))


def _solve_scalar(c, P, fn, a, b, tol_arg, interval=True):
    """run the real brentsroot; interval=True takes the `return_interval` return statement, False the plain one"""
    from desolver.utilities import optimizer as opt
    n0 = fn.calls
    if interval:
        st, r = run(opt.brentsroot, fn, [a, b], tol_arg, False, True)
    else:
        st, r = run(opt.brentsroot, fn, [a, b], tol_arg)
    if st != "ok":
        c.check(P + ".returns", False, info=repr(r) if st == "exc" else "does not terminate")
        return None
    ncalls = fn.calls - n0
    if len(r) == 2:       # plain form, or the early 'no bracket' return (which never carries an interval)
        x, ok = r
        return _num(c, x), _flag(c, ok), None, ncalls - (0 if interval else 1)
    x, ok, (ia, ib) = r
    return _num(c, x), _flag(c, ok), (ia, ib), ncalls - 1     # the return statement evaluates f(b) once more


def scenario(c, inst):
    fam = inst["family"]
    if fam == "fp":
        return _fp_lemma(c, inst)
    if fam == "fpovf":
        return _fp_overflow(c, inst)
    tol_arg, tol = _tolerance(c, inst)
    n = inst.get("nvec", 0)
    if n == 0:
        a, w = _bracket(c, inst, tol)
        b = a + w
        fn = _make_fn(c, inst, a, w)
        res = _solve_scalar(c, "c14", fn, a, b, tol_arg, interval=inst.get("interval", True))
        if res is None:
            return
        x, ok, interval, ncalls = res
        c.note("x", repr(x)[:120])
        c.note("function_evaluations", ncalls)
        _oracle(c, "c14", fn, a, b, tol, x, ok, interval, ncalls)
        return
    _vector(c, inst, n, tol_arg, tol)


def _vector(c, inst, n, tol_arg, tol):
    from desolver.utilities import optimizer as opt
    shared = inst.get("bounds", "shared") == "shared"
    scales = inst["scale"] if isinstance(inst["scale"], list) else [inst["scale"]] * n
    roots = inst["root"] if isinstance(inst["root"], list) else [inst["root"]] * n
    brs, fns = [], []
    for i in range(n):
        if shared and i > 0:
            a, w = brs[0]
        else:
            a, w = _bracket(c, inst, tol, "" if i == 0 else "_%d" % i, i)
        brs.append((a, w))
        fns.append(_make_fn(c, inst, a, w, idx=i, scale=scales[i], root=roots[i]))
        if i == 0 and inst.get("half"):
            rho0 = c.real("rho")
            c.assume(rho0 < 0.5 if inst["half"] == "lo" else rho0 >= 0.5)
    if shared:
        lb, ub = brs[0][0], brs[0][0] + brs[0][1]
        if not c.symbolic:
            lb, ub = np.float64(lb), np.float64(ub)
    else:
        lb = c.array([a for a, w in brs])
        ub = c.array([a + w for a, w in brs])
    with_interval = inst.get("interval", True)
    before = None if shared else (list(flat(c, lb)), list(flat(c, ub)))
    if with_interval:
        st, r = run(opt.brentsrootvec, list(fns), [lb, ub], tol_arg, False, True)
    else:
        st, r = run(opt.brentsrootvec, list(fns), [lb, ub], tol_arg)
    if st != "ok":
        c.check("c14.vec.returns", False, info=repr(r) if st == "exc" else "does not terminate")
        return
    if with_interval:
        xv, okv, (iav, ibv) = r
    else:
        xv, okv = r
        iav = ibv = None
    if before is not None:
        # the bracket arrays belong to the caller (who may search the same brackets again): they come back as they were handed over
        after = (list(flat(c, lb)), list(flat(c, ub)))
        same = all((u is v) if c.symbolic else (u == v) for u, v in zip(before[0] + before[1], after[0] + after[1]))
        c.check("c14.vec.callers_bracket_arrays_are_not_modified", same)
    shape_ok = tuple(np.shape(xv)) == (n,) and tuple(np.shape(okv)) == (n,)
    c.check("c14.vec.result_shape", shape_ok, info=dict(x=repr(np.shape(xv)), ok=repr(np.shape(okv))))
    if not shape_ok:
        return
    for i in range(n):
        a, w = brs[i]
        b = a + w
        fn = fns[i]
        x, ok = _num(c, xv[i]), _flag(c, okv[i])
        if inst.get("oracle", True):
            _oracle(c, "c14.vec", fn, a, b, tol, x, ok, (iav[i], ibv[i]) if iav is not None else None, fn.calls)
        res = _solve_scalar(c, "c14", fn, a, b, tol_arg, interval=not with_interval)
        if res is None:
            continue
        xs, oks, _, _ = res
        fa, fb = fn.val(a), fn.val(b)
        bracketed = c.lt(fa * fb, 0)
        same_ok = _iff(c, ok, oks)
        if _finite(xs):
            same_x = c.eq(x, xs)
            region = False
        else:
            # scalar answer (inf, False).  Known finding: the vector solver does not iterate on a bracket without sign
            # change and hands back the end point with the smaller |f| and flag = (|f| <= tol)
            same_x = False
            small = c.le(absval(c, fn.val(x)), tol)
            # (strictly the same sign at both ends: with a root exactly AT an end point, f(a)*f(b) = 0, the scalar solver does iterate
            # and both solvers must agree)
            region = c.all([oks is False, c.lt(0, fa * fb), c.any([c.eq(x, a), c.eq(x, b)]), _iff(c, ok, small)])
        c.check("c14.vec.agrees_with_scalar.bracketed", _implies(c, bracketed, c.all([same_x, same_ok])))
        c.check("c14.vec.agrees_with_scalar.success_flag", same_ok, regions={KEY_VEC: region})
        c.check("c14.vec.agrees_with_scalar.point", same_x, regions={KEY_VEC: region})


# ----------------------------------------------------------------------------------------------------------------------
# floating-point lemma (QF_FP): the acceptance predicate of the return statement, bit-precise
#
#   for all floats s, d (|s| <= 1000) and ADJACENT floats x0 < x1 in (0.5, 2):
#       fl(s*x0 - d) < 0 < fl(s*x1 - d)   =>   |fl(s*x0 - d)| <= tol  or  |fl(s*x1 - d)| <= tol        (tol = 4*eps(dtype))
#
# i.e. "a sign change bracketed to the last bit is accepted by `abs(f(b)) <= tol`".  z3 decides the negation; sat = the float
# form of the known finding (no representable point can meet the success test).

FP_FORMATS = {"float16": (5, 11), "float32": (8, 24), "float64": (11, 53)}
FP_CHECK = "c14.fp.sign_change_between_adjacent_floats_is_accepted"


def _fp_query(dtype, timeout_s, xlo=0.5, xhi=2.0):
    """('sat', dict(x0=, s=, d=) exact Fractions) | ('unsat', None) | ('unknown', None)"""
    import z3
    eb, sb = FP_FORMATS[dtype]
    npdt = np.dtype(dtype)
    F = z3.FPSort(eb, sb)
    rm = z3.RNE()
    nb = eb + sb
    sv, dv = z3.FP("s", F), z3.FP("d", F)
    x0, x1 = z3.FP("x0", F), z3.FP("x1", F)
    bx = z3.fpToIEEEBV(x0)
    if xlo >= 0:
        adjacent = z3.fpToIEEEBV(x1) == bx + 1      # next float up: both are positive normal numbers in (xlo, xhi)
    else:
        adjacent = bx == z3.fpToIEEEBV(x1) + 1      # negative normal numbers: the next float up has the smaller bit pattern
    tol = z3.FPVal(float(np.finfo(npdt).eps) * 4, F)
    r0 = z3.fpSub(rm, z3.fpMul(rm, sv, x0), dv)
    r1 = z3.fpSub(rm, z3.fpMul(rm, sv, x1), dv)
    sol = z3.SolverFor("QF_FP")
    sol.set("timeout", int(timeout_s * 1000))
    sol.add(adjacent, z3.fpGT(x0, z3.FPVal(xlo, F)), z3.fpLT(x1, z3.FPVal(xhi, F)))
    sol.add(z3.fpLEQ(sv, z3.FPVal(1000.0, F)), z3.fpGEQ(sv, z3.FPVal(-1000.0, F)))
    sol.add(z3.Not(z3.fpIsNaN(dv)), z3.Not(z3.fpIsInf(dv)))
    sol.add(z3.fpLT(r0, z3.fpNeg(tol)), z3.fpGT(r1, tol))
    r = sol.check()
    if r == z3.unsat:
        return "unsat", None
    if r != z3.sat:
        return "unknown", None
    m = sol.model()
    uint = {16: np.uint16, 32: np.uint32, 64: np.uint64}[nb]

    def val(bits_expr):
        bits = m.eval(bits_expr, model_completion=True).as_long()
        return Fraction(float(np.array([bits], dtype=uint).view(npdt)[0]))
    return "sat", dict(x0=val(bx), s=val(z3.fpToIEEEBV(sv)), d=val(z3.fpToIEEEBV(dv)))


def _fp_real_code(dt, s, d, x0, xlo=0.5, xhi=2.0):
    """run the real brentsroot in dtype dt on f(x) = s*x - d; True iff the sign change is bracketed by the adjacent floats
    x0 < x1, both residuals exceed tol, and the solver reports failure on [x0, x1] as well as on [1/2, 2]"""
    import warnings
    from desolver.utilities import optimizer as opt
    from desolver import backend as D
    s, d, x0 = dt(s), dt(d), dt(x0)
    x1 = np.nextafter(x0, dt(np.inf))
    tol = D.epsilon(np.dtype(dt))

    def f(x):
        return s * x - d
    f0, f1 = f(x0), f(x1)
    out = dict(dtype=np.dtype(dt).name, s=float(s), d=float(d), x0=float(x0), x1=float(x1), f_x0=float(f0), f_x1=float(f1), tol=float(tol))
    if not (f0 < -tol and f1 > tol):
        out["defect"] = False
        return out
    with warnings.catch_warnings():
        warnings.simplefilter("ignore")
        xa, oka = opt.brentsroot(f, [x0, x1])
        xb, okb = opt.brentsroot(f, [dt(xlo), dt(xhi)])
        # the vector solver (the one event detection uses) on the same two brackets
        xva, okva = opt.brentsrootvec([f], [np.asarray(x0), np.asarray(x1)])
        xvb, okvb = opt.brentsrootvec([f], [np.asarray(dt(xlo)), np.asarray(dt(xhi))])
    xva, okva, xvb, okvb = np.ravel(xva)[0], np.ravel(okva)[0], np.ravel(xvb)[0], np.ravel(okvb)[0]
    out.update(narrow=dict(x=float(xa), success=bool(oka)), wide=dict(x=float(xb), success=bool(okb)),
               vec_narrow=dict(x=float(xva), success=bool(okva)), vec_wide=dict(x=float(xvb), success=bool(okvb)))
    scalar_defect = (not bool(oka)) and (not bool(okb)) and float(xb) in (float(x0), float(x1))
    vector_defect = (not bool(okva)) and (not bool(okvb)) and float(xvb) in (float(x0), float(x1))
    out["defect"] = bool(scalar_defect or vector_defect)
    out["defect_in"] = [n for n, v in (("brentsroot", scalar_defect), ("brentsrootvec", vector_defect)) if v]
    return out


def _fp_transport_float64(s, x_start, span=4096, xlo=0.5, xhi=2.0):
    """float64 instance of the lemma with the witness slope: scan adjacent float64 pairs for one whose images fl(s*x) lie
    two or more ulps apart and put d in the middle"""
    dt = np.float64
    tol = 4 * EPS64
    for mult in (1.0, 2.0, 4.0, 8.0, 16.0, 32.0, 64.0):
        sv = dt(s) * dt(mult)
        if abs(sv) > 1000 or sv == 0:
            break
        x0 = dt(x_start)
        for _ in range(span):
            x1 = np.nextafter(x0, dt(np.inf))
            if not (xlo < x0 and x1 < xhi):
                break
            y0, y1 = sv * x0, sv * x1
            d = (y0 + y1) / 2
            if (y0 - d) < -tol and (y1 - d) > tol:
                return float(sv), float(d), float(x0)
            x0 = x1
    return None


def _fp_on_real_code(c, dtype, s, d, x0, xlo=0.5, xhi=2.0):
    """the real code in the lemma's dtype, then the same slope transported to float64; True iff the defect shows"""
    dt = np.dtype(dtype).type
    own = _fp_real_code(dt, s, d, x0, xlo, xhi)
    c.note("real_code_" + dtype, own)
    t = _fp_transport_float64(s, x0, xlo=xlo, xhi=xhi)
    f64 = _fp_real_code(np.float64, *t, xlo, xhi) if t is not None else dict(defect=False, note="no float64 instance found near the witness")
    c.note("real_code_float64" + ("_transported" if dtype == "float64" else ""), f64)
    return bool(own["defect"] or f64["defect"])


def _fp_lemma(c, inst):
    dtype = inst["dtype"]
    if c.symbolic:
        from srx import core
        status, wit = _fp_query(dtype, inst.get("timeout_s", 60), inst.get("xlo", 0.5), inst.get("xhi", 2.0))
        c.note("qf_fp_result", status)
        if status == "unknown":
            raise core.BudgetHit("qf_fp_unknown")      # inconclusive, never success
        if status == "unsat":
            c.check(FP_CHECK, True)
            c.note("qf_fp", "no counterexample in %s" % dtype)
            return
        c.note("qf_fp_witness", {k: float(v) for k, v in wit.items()})
        # pure float runs of the real code on the bit-precise witness (recorded in the evidence sample; the verdict is the replay's)
        defect = _fp_on_real_code(c, dtype, float(wit["s"]), float(wit["d"]), float(wit["x0"]), inst.get("xlo", 0.5), inst.get("xhi", 2.0))
        for k, v in wit.items():            # hand the witness to the float replay through the path inputs
            c.assume(c.eq(c.real(k), v))
        # the lemma only says that no representable point has a small residual; whether the REAL acceptance test still certifies the
        # bracketed sign change is decided by running the real code on the bit-precise witness
        c.check(FP_CHECK, not defect, info=dict(dtype=dtype, witness={k: str(v) for k, v in wit.items()}, xrange=[inst.get("xlo", 0.5), inst.get("xhi", 2.0)]))
        return
    c.check(FP_CHECK, not _fp_on_real_code(c, dtype, c.real("s"), c.real("d"), c.real("x0"), inst.get("xlo", 0.5), inst.get("xhi", 2.0)))


FPOVF_CHECK = "c14.fp.bracketed_sign_change_is_certified_when_products_of_function_values_overflow"


def _fpovf_query(dtype, variant, timeout_s):
    """floats s, d, a < b with f(x) = fl(fl(s*x) - d) finite at both ends, f(a)*f(b) < 0 in sign, and fl(f(a)*f(b)) infinite"""
    import z3
    eb, sb = FP_FORMATS[dtype]
    npdt = np.dtype(dtype)
    F = z3.FPSort(eb, sb)
    rm = z3.RNE()
    nb = eb + sb
    sv, dv, av, bv = z3.FP("s", F), z3.FP("d", F), z3.FP("a", F), z3.FP("b", F)
    tol = z3.FPVal(float(np.finfo(npdt).eps) * 4, F)
    fa = z3.fpSub(rm, z3.fpMul(rm, sv, av), dv)
    fb = z3.fpSub(rm, z3.fpMul(rm, sv, bv), dv)
    sol = z3.SolverFor("QF_FP")
    sol.set("timeout", int(timeout_s * 1000))
    big = 8.0 if dtype == "float16" else 1e12
    for v in (sv, dv, av, bv, fa, fb):
        sol.add(z3.Not(z3.fpIsNaN(v)), z3.Not(z3.fpIsInf(v)))
    sol.add(z3.fpLT(av, bv), z3.fpGEQ(av, z3.FPVal(-big, F)), z3.fpLEQ(bv, z3.FPVal(big, F)))
    sol.add(z3.fpGEQ(z3.fpSub(rm, bv, av), z3.FPVal(0.25, F)))
    if variant == "neg":
        sol.add(z3.fpGT(fa, tol), z3.fpLT(fb, z3.fpNeg(tol)))
    else:
        sol.add(z3.fpLT(fa, z3.fpNeg(tol)), z3.fpGT(fb, tol))
    sol.add(z3.fpIsInf(z3.fpMul(rm, fa, fb)))
    eight = z3.FPVal(8.0, F)
    if variant == "near-a":
        sol.add(z3.fpLT(z3.fpMul(rm, z3.fpAbs(fa), eight), z3.fpAbs(fb)))
    if variant == "near-b":
        sol.add(z3.fpLT(z3.fpMul(rm, z3.fpAbs(fb), eight), z3.fpAbs(fa)))
    r = sol.check()
    if r == z3.unsat:
        return "unsat", None
    if r != z3.sat:
        return "unknown", None
    m = sol.model()
    uint = {16: np.uint16, 32: np.uint32, 64: np.uint64}[nb]

    def val(x):
        bits = m.eval(z3.fpToIEEEBV(x), model_completion=True).as_long()
        return Fraction(float(np.array([bits], dtype=uint).view(npdt)[0]))
    return "sat", dict(s=val(sv), d=val(dv), a=val(av), b=val(bv))


def _fpovf_real_code(dtype, s, d, a, b):
    """the real solvers in dtype on f(x) = s*x - d over [a, b] and [b, a]; defect = a result that is outside the bracket, reported as
    failure, or without a sign change within tol*max(1, |x|) of it"""
    import warnings
    from desolver.utilities import optimizer as opt
    from desolver import backend as D
    dt = np.dtype(dtype).type
    s, d, a, b = dt(s), dt(d), dt(a), dt(b)
    tol = D.epsilon(np.dtype(dtype))

    def f(x):
        return s * x - d
    out = dict(dtype=dtype, s=float(s), d=float(d), a=float(a), b=float(b), f_a=float(f(a)), f_b=float(f(b)), product=float(f(a) * f(b)), runs=[])
    bad = []
    with warnings.catch_warnings():
        warnings.simplefilter("ignore")
        if not (np.isfinite(f(a)) and np.isfinite(f(b)) and np.sign(f(a)) * np.sign(f(b)) < 0 and np.isinf(f(a) * f(b))):
            out["defect"] = False
            out["note"] = "not the corner"
            return out
        for lo, hi in ((a, b), (b, a)):
            x, ok = opt.brentsroot(f, [lo, hi])
            xv, okv = opt.brentsrootvec([f], [np.asarray(lo), np.asarray(hi)])
            for name, xx, oo in (("brentsroot", x, ok), ("brentsrootvec", np.ravel(xv)[0], np.ravel(okv)[0])):
                inside = bool(np.isfinite(xx)) and bool(min(a, b) <= xx <= max(a, b))
                near = False
                if inside:
                    dl = tol * max(dt(1), abs(dt(xx)))
                    near = bool(np.sign(f(dt(xx) - dl)) * np.sign(f(dt(xx) + dl)) <= 0)
                out["runs"].append(dict(solver=name, bracket=[float(lo), float(hi)], x=float(xx), success=bool(oo), inside=inside, sign_change_within_tol=near))
                if not (inside and bool(oo) and near):
                    bad.append(name)
    out["defect"] = bool(bad)
    out["defect_in"] = sorted(set(bad))
    return out


def _fp_overflow(c, inst):
    dtype = inst["dtype"]
    if c.symbolic:
        from srx import core
        status, wit = _fpovf_query(dtype, inst["variant"], inst.get("timeout_s", 60))
        c.note("qf_fp_result", status)
        if status != "sat":
            raise core.BudgetHit("qf_fp_" + status)      # no corner found: inconclusive, never success
        c.note("qf_fp_witness", {k: float(v) for k, v in wit.items()})
        res = _fpovf_real_code(dtype, *(float(wit[k]) for k in ("s", "d", "a", "b")))
        c.note("real_code", res)
        for k, v in wit.items():
            c.assume(c.eq(c.real("ovf_" + k), v))
        c.check(FPOVF_CHECK, not res["defect"], info=dict(dtype=dtype, witness={k: str(v) for k, v in wit.items()}))
        return
    res = _fpovf_real_code(dtype, *(float(c.real("ovf_" + k)) for k in ("s", "d", "a", "b")))
    c.note("real_code", res)
    c.check(FPOVF_CHECK, not res["defect"])


REPLAY_TOL = 4 * EPS64


def replay(inst, witness, check_name):
    """float replay with a tolerance of a few ulps (the default 256*eps would swamp tol = 4*eps)"""
    from srx.explorer import ConcreteCtx
    cc = ConcreteCtx(witness, tol=REPLAY_TOL)
    scenario(cc, inst)
    return dict(reproduced=check_name in cc.failed, failed=sorted(set(cc.failed)),
                notes={k: repr(v)[:600] for k, v in cc.notes.items()})
