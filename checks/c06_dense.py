"""C06 - dense output is a consistent continuous extension of the computed trajectory."""
from __future__ import annotations

import numpy as np

from . import spans
from .common import run, absval, flat, StepCap, FreshRhs, ctrl_stub

PROPERTY = "C06"
LEVEL = "other"
EXPLANATION = (
    "The real OdeSystem.integrate with dense_output=True (real DenseOutput.add_interpolant / find_interval / find_interval_vec / "
    "__call__, the integrators' dense_output and CubicHermiteInterp) is executed with t0, tf, dt0 arbitrary reals (both directions), "
    "a congruent uninterpreted right-hand side and a symbolic query time q.  Per feasible path z3 decides: sol(t_i) = y_i at every "
    "recorded time; for every q in the integrated range the piece selected by find_interval (scalar) and find_interval_vec (array "
    "query) contains q between its end times (no extrapolation of a neighbouring step); pieces are contiguous and in step order; "
    "piece end values are the recorded states and end slopes equal f at the recorded states (an unevaluated point would be a fresh "
    "symbol, so stale cached slopes are caught).  Histories: one call, continuation in a second call; Richardson wrappers: pieces of "
    "the last sub-division cover the step and sol(t_i) is within the wrapper's own error estimate of y_i.")
ASSUMPTIONS = [
    "real arithmetic; |tf-t0| <= N*|dt0|, 1/64 <= |dt0| <= 256, |t0|,|tf| <= 64",
    "rhs = uninterpreted function of (t, y) with syntactic congruence; embedded pair: ctrl contract stub (<= 1 rejection)",
    "histories are monotone (one direction per system); event histories use the events oracle of C07-C09 (differential_system.handle_events stubbed by an arbitrary output "
    "satisfying the guarantee proved of the real one); failed-then-resumed histories are decided in C12 with the same piece checks",
]
BOUNDS = {"quick": dict(N=3, calls="<= 2"), "thorough": dict(N=4, calls="<= 2")}
OUTSIDE = ["the O(h^4) interpolation error bound between grid points (analytic estimate; exactness on cubics is C17)", "IEEE rounding"]


ASSUMPTIONS = list(globals().get("ASSUMPTIONS", [])) + [
    "continued-constants-replaced instances: the constants dict {k: k_old} is replaced by {k: k_new} (k_old != k_new) between the two calls; the uninterpreted rhs takes k as an argument",
]


def instances(tier):
    quick = tier == "quick"
    b = dict(wall_s=75 if quick else 600, max_paths=2500 if quick else 30000)
    out = []
    fams = ["euler", "rk4", "sympl_euler", "dopri45", "heun_euler"] if quick else ["euler", "rk4", "midpoint", "sympl_euler", "abas5o6h", "dopri45", "heun_euler"]
    for fam in fams:
        n = (3 if quick else 4) if spans.FAMILIES[fam][2] == "fixed" else 2
        out.append(dict(id="pieces-%s-N%d" % (fam, n), family=fam, N=n, mode="pieces", budget=b))
        out.append(dict(id="lookup-%s-N%d" % (fam, min(n, 3)), family=fam, N=min(n, 3), mode="lookup", budget=b))
    for fam in ("euler", "sympl_euler"):
        out.append(dict(id="continued-%s-N2" % fam, family=fam, N=2, mode="pieces", cont=True, budget=b))
        out.append(dict(id="continued-lookup-%s-N2" % fam, family=fam, N=2, mode="lookup", cont=True, budget=b))
    # the equation's parameters (OdeSystem.constants) are replaced between two calls: every piece has the end slopes of the equation in force
    # when its step was taken
    for fam in (("rk4", "euler", "sympl_euler") if quick else ("euler", "rk4", "dopri45", "sympl_euler", "heun_euler")):
        out.append(dict(id="continued-constants-replaced-%s-N2" % fam, family=fam, N=2, mode="pieces", cont=True, constants_change=True, budget=b))
    out.append(dict(id="lookup-euler-N2-after-reset-reversed", family="euler", N=2, mode="lookup", reset_then_reverse=True, budget=b))
    out.append(dict(id="pieces-euler-N2-after-reset-reversed", family="euler", N=2, mode="pieces", reset_then_reverse=True, budget=b))
    out.append(dict(id="richardson-euler-N2", family="euler", N=2, mode="richardson", budget=b))
    # deep extrapolation table: the convergence test may leave the table before the finest sub-division has been run
    out.append(dict(id="richardson-euler-N1-depth6", family="euler", N=1, mode="richardson", depth=6, budget=b))
    # histories with events: non-terminal, terminal (rolled-back step), and continuation after the stop - the real event section of integrate
    # driven by the events oracle of C07-C09
    for fam, evs in ((("euler", "T"), ("euler", "nT"), ("rk4", "T")) if quick else (("euler", "T"), ("euler", "nT"), ("rk4", "T"), ("rk4", "nT"), ("sympl_euler", "T"), ("midpoint", "nT"))):
        out.append(dict(id="events-%s-%s-N2" % (fam, evs), family=fam, N=2, mode="events", events=list(evs), dense=True, max_reports=2, kind="integrate", budget=b))
    return out


def _eqv(c, a, b, scale=1):
    fa, fb = flat(c, a), flat(c, b)
    return len(fa) == len(fb) and c.all([c.eq(u, v, scale) for u, v in zip(fa, fb)])


def step_order(lst, backward):
    return list(lst)[::-1] if backward else list(lst)


def piece_checks(c, P, a, rhs_probe, backward, slopes=True, regions=None, kw_of_step=None):
    """pieces in step order: contiguous, end values = recorded rows, end slopes = f(recorded rows)"""
    sol = a.sol
    n = len(a.t)
    pieces = 0 if sol is None or sol.t_eval is None else len(sol.t_eval)
    c.check(P + ".one_piece_per_recorded_step", pieces == n - 1 and len(sol.y_interpolants) == pieces if sol is not None else False, info=dict(pieces=pieces, rows=n))
    if pieces != n - 1 or pieces == 0:
        return
    its = step_order(sol.y_interpolants, backward)
    ends = step_order(sol.t_eval, backward)
    ok_t, ok_p, ok_m = [], [], []
    for i in range(pieces):
        ok_t.append(c.eq(its[i].t0, a.t[i]))
        ok_t.append(c.eq(its[i].t1, a.t[i + 1]))
        ok_t.append(c.eq(ends[i], a.t[i + 1]))
        ok_p.append(_eqv(c, its[i].p0, a.y[i]))
        ok_p.append(_eqv(c, its[i].p1, a.y[i + 1]))
        if slopes:
            kw = kw_of_step(i) if kw_of_step is not None else {}
            ok_m.append(_eqv(c, its[i].m0, rhs_probe(a.t[i], a.y[i], **kw)))
            ok_m.append(_eqv(c, its[i].m1, rhs_probe(a.t[i + 1], a.y[i + 1], **kw)))
    c.check(P + ".pieces_contiguous_in_step_order", c.all(ok_t), regions=regions)
    c.check(P + ".piece_end_values_are_recorded_states", c.all(ok_p), regions=regions)
    if slopes:
        c.check(P + ".piece_end_slopes_are_rhs_at_recorded_states", c.all(ok_m), regions=regions)


def lookup_checks(c, P, a, q, backward, regions=None):
    sol = a.sol
    n = len(a.t)
    st, idx = run(sol.find_interval, q)
    if st != "ok":
        c.check(P + ".find_interval_returns", False, info=repr(idx))
        return
    idx = int(idx)
    it = sol.y_interpolants[idx]
    c.check(P + ".selected_piece_contains_query", c.le(0, (q - it.t0) * (it.t1 - q), 1), info=dict(idx=idx, pieces=len(sol.y_interpolants)), regions=regions)
    q2 = a.t[0]
    st, iv = run(sol.find_interval_vec, c.array([q, q2]))
    if st != "ok":
        c.check(P + ".find_interval_vec_returns", False, info=repr(iv))
        return
    iv0 = int(iv[0])
    itv = sol.y_interpolants[iv0]
    c.check(P + ".vector_lookup_selects_containing_piece", c.le(0, (q - itv.t0) * (itv.t1 - q), 1), info=dict(idx=iv0), regions=regions)
    st, val = run(sol, q)
    if st == "ok":
        c.check(P + ".value_is_selected_piece_at_query", _eqv(c, val, it(q), 64))


def scenario(c, inst):
    if inst.get("mode") == "events":
        from . import events_common as EC
        return EC.scenario(c, inst, {"C06"})
    if c.symbolic:
        c.ackermann = False
    t0, tf, dt0 = c.real("t0"), c.real("tf"), c.real("dt0")
    span, adt = spans.input_assumptions(c, inst, t0, tf, dt0)
    fam = inst["family"]
    method, shape, kind = spans.FAMILIES[fam]
    # (Richardson instances: fresh symbols per call, so that the float replay follows the witness through the convergence tests of the
    # extrapolation table; their assertions are about coverage only)
    rhs = FreshRhs(c, shape, name="f", mode="fresh" if inst.get("mode") == "richardson" else "uf")
    probe = FreshRhs(c, shape, name="f", mode="uf")
    k_old = k_new = None
    if inst.get("constants_change"):
        k_old, k_new = c.real("k_old"), c.real("k_new")
        c.assume(k_old != k_new)
    st, built = run(spans.build_system, c, dict(inst, max_redo=1), t0, tf, dt0, True, rhs, (dict(k=k_old) if k_old is not None else None))
    if st != "ok":
        c.check("c06.constructs", False, info=repr(built))
        return
    a, _, log = built
    cap = inst["N"] + 3
    backward = bool(tf - t0 < 0)
    mode = inst["mode"]
    if mode == "richardson":
        _richardson(c, inst, a, probe, t0, tf, backward, cap)
        return
    if inst.get("cont"):
        T1 = c.real("T1")
        c.assume((T1 - t0) * (tf - T1) > 0)
        c.assume(absval(c, T1 - t0) >= 1.0 / 64)
        c.assume(absval(c, T1 - t0) <= 2 * adt)
        st, r = run(a.integrate, T1, callback=[spans.cap_callback(c, cap, kind)])
        if st != "ok":
            return
        c.assume(absval(c, tf - T1) <= 2 * absval(c, a.dt))
        n_first_leg = len(a.t)
        if k_new is not None:
            a.constants = dict(k=k_new)
    st, r = run(a.integrate, callback=[spans.cap_callback(c, cap + 1, kind)])
    if st != "ok":
        return
    if inst.get("reset_then_reverse"):
        # the dense output of the first run is queried, the system is reset, the target is moved to the other side of t0 and the system
        # integrated in the OPPOSITE direction: lookups in the new dense output are those of a fresh system
        run(a.sol, t0 + 0.5 * (a.t[-1] - t0))
        run(a.reset)
        tf = t0 - (tf - t0)
        st, r = run(setattr, a, "tf", tf)
        if st != "ok":
            c.check("c06.tf_can_be_reassigned", False, info=repr(r)[:120])
            return
        backward = not backward
        st, r = run(a.integrate, callback=[spans.cap_callback(c, cap + 1, kind)])
        if st != "ok":
            return
    n = len(a.t)
    c.note("n_rows", n)
    c.case()
    if mode == "pieces":
        kw_of_step = None
        if k_new is not None:
            def kw_of_step(i):
                return dict(k=k_old) if i < n_first_leg - 1 else dict(k=k_new)
        piece_checks(c, "c06", a, probe, backward, kw_of_step=kw_of_step)
        vals = []
        for i in range(n):
            st, v = run(a.sol, a.t[i])
            vals.append(st == "ok" and _eqv(c, v, a.y[i]))
        c.check("c06.solution_at_recorded_times_is_recorded_state", c.all(vals))
        st, v = run(a.sol, c.array([a.t[0], a.t[-1]]))
        c.check("c06.array_query_at_recorded_times", st == "ok" and np.shape(v)[0] == 2 and _eqv(c, v[0], a.y[0]) and _eqv(c, v[1], a.y[-1]))
        return
    q = c.real("q")
    c.assume((q - a.t[0]) * (a.t[-1] - q) >= 0)       # inside the integrated range (the run may stop within 32*eps of tf)
    lookup_checks(c, "c06", a, q, backward)


def _richardson(c, inst, a, probe, t0, tf, backward, cap):
    import desolver.integrators as I
    RI = I.generate_richardson_integrator(I.EulerSolver, richardson_iter=inst.get("depth", 2))
    a.set_method(RI)
    a.integrator.update_timestep = ctrl_stub(c, a.integrator, fixed=1.0)
    for bi in a.integrator.basis_integrators:
        bi.update_timestep = ctrl_stub(c, bi, fixed=1.0)
    st, r = run(a.integrate, callback=[spans.cap_callback(c, cap, "fixed")])
    if st != "ok":
        cause = getattr(r, "__cause__", None)
        if not isinstance(cause, StepCap):
            c.check("c06.richardson.integrates", False, info=repr(r) + " / " + repr(cause))
        return
    n = len(a.t)
    c.note("n_rows", n)
    c.case()
    sol = a.sol
    its = step_order(sol.y_interpolants, backward)
    c.check("c06.richardson.every_recorded_step_has_pieces", len(its) >= n - 1, info=dict(pieces=len(its), rows=n))
    if len(its) == 0:
        return
    # pieces come from the last sub-division that was run: contiguous, covering every step
    ok = [c.eq(its[0].t0, a.t[0])]
    for i in range(len(its) - 1):
        ok.append(c.eq(its[i].t1, its[i + 1].t0))
    c.check("c06.richardson.pieces_contiguous", c.all(ok), info=dict(pieces=len(its), rows=n))
    c.check("c06.richardson.pieces_end_at_target", c.eq(its[-1].t1, a.t[-1]))
    q = c.real("q")
    c.assume((q - a.t[0]) * (a.t[-1] - q) >= 0)
    st, idx = run(sol.find_interval, q)
    if st == "ok":
        it = sol.y_interpolants[int(idx)]
        c.check("c06.richardson.selected_piece_contains_query", c.le(0, (q - it.t0) * (it.t1 - q), 1), info=dict(idx=int(idx)))
