"""Shared scenario for C07 / C08 / C09, part B: the real event section of OdeSystem.integrate driven by an events oracle.

`differential_system.handle_events` is replaced by a stub that returns an ARBITRARY output satisfying exactly the guarantee that
part A (checks/c07_events.py, kind 'handle') proves of the real handle_events: every reported root lies in the closed bracket
[t_prev, t_next]; events are ordered along the direction of integration; the list is cut after the first terminal event and
`terminate` is set iff one is included.  Everything else (true_positive filter, state lookup through the real DenseOutput,
duplicate suppression, roll-back and re-integration to a terminal root, buffer growth, interpolant pruning, status) is the real code.
"""
from __future__ import annotations

import functools

import numpy as np

from . import spans
from .common import run, absval, flat, StepCap, FreshRhs, patched
from .c06_dense import piece_checks, step_order

EPS07 = (4 * float(np.finfo(np.float64).eps)) ** 0.7


KEY_SHALLOW = "c07.shallow_event_root_near_step_boundary"


class Ev:
    """an event function object; only its attributes are read by integrate (handle_events is stubbed)"""

    def __init__(self, name, terminal=False, direction=0):
        self.name = name
        self.is_terminal = terminal
        self.direction = direction

    def __call__(self, t, y, **kw):
        return t

    def __repr__(self):
        return "Ev(%s%s)" % (self.name, ",terminal" if self.is_terminal else "")


class EventFault(Exception):
    pass


class EventsOracle:
    def __init__(self, c, max_total=3, max_calls=4, terminal_by=None):
        self.c = c
        self.calls = []
        self.total = 0
        self.max_total = max_total
        self.max_calls = max_calls
        self.terminal_by = terminal_by
        self.system = None
        self.probe_sol = True
        self.fault_call = None      # index of the detector invocation that raises (an event function failing), once
        self.faulted = False
        self.landing_fault = None   # j: the rhs raises at its j-th evaluation of the landing on a terminal event
        self.landing_armed = False
        self.rhs = None
        self.pending = []

    def __call__(self, sol_tuple, events, consts, direction, is_terminal, attributes):
        c = self.c
        sol, t_prev, t_next = sol_tuple
        k = len(self.calls)
        if self.fault_call is not None and k == self.fault_call and not self.faulted:
            self.faulted = True
            if self.probe_sol:
                sol(t_prev + 0.5 * (t_next - t_prev))
            raise EventFault("event function failed while the events of step %d were being located" % k)
        if k >= self.max_calls:
            from srx import core
            if c.symbolic:
                raise core.CutPath("step_cap", "more than %d steps with events" % self.max_calls)
            raise StepCap("more than %d steps with events" % self.max_calls)
        # the flags integrate() hands to the detector are its own reading of the event functions' attributes: they must be the current ones
        # ... and so must be the constants the event functions are evaluated with
        cur = dict(self.system.constants) if self.system is not None else {}
        consts_ok = set(consts.keys()) == set(cur.keys()) and all(consts[k_] is cur[k_] for k_ in cur)
        flags_ok = consts_ok and all(bool(is_terminal[i]) == bool(ev.is_terminal) and int(direction[i]) == int(getattr(ev, "direction", 0)) for i, ev in enumerate(events))
        rep = []
        forced_idx = set()
        for pnd in list(self.pending):
            # a crossing the detector had located in a step that was then abandoned: re-examining the rest of that step it is found again
            # (the detector is deterministic), at the same place
            if bool((pnd["root"] - t_prev) * (t_next - pnd["root"]) >= 0):
                rep.append(dict(i=pnd["i"], ev=events[pnd["i"]], lam=(pnd["root"] - t_prev) / (t_next - t_prev), root=pnd["root"]))
                forced_idx.add(pnd["i"])
                self.pending.remove(pnd)
                self.total += 1
        for i, ev in enumerate(events):
            if i in forced_idx:
                continue
            force = self.terminal_by is not None and k == self.terminal_by and ev.is_terminal
            if self.total >= self.max_total and not force:
                continue
            flag = c.real("rep_%d_%d" % (k, i))
            if force:
                c.assume(flag > 0)
            if bool(flag > 0):
                lam = c.real("lam_%d_%d" % (k, i))
                c.assume(lam >= 0)
                c.assume(lam <= 1)
                rep.append(dict(i=i, ev=ev, lam=lam, root=t_prev + lam * (t_next - t_prev)))
                self.total += 1

        def cmp(a, b):
            if bool(a["lam"] < b["lam"]):
                return -1
            if bool(a["lam"] > b["lam"]):
                return 1
            return 0
        rep.sort(key=functools.cmp_to_key(cmp))
        terminate = False
        for j, r in enumerate(rep):
            if bool(is_terminal[r["i"]]):         # (the detector cuts the list by the flags it was handed)
                rep = rep[:j + 1]
                terminate = True
                break
        # like the real detector, the oracle evaluates the dense output at scalar times inside the bracket (its mid-point and
        # every root it reports) - the values are not used, but DenseOutput may keep state between queries
        if self.probe_sol:
            for q_ in [t_prev + 0.5 * (t_next - t_prev)] + [r["root"] for r in rep]:
                sol(q_)
        # the piece of this step inside the real DenseOutput, for the y_e oracle
        piece = None
        for it in sol.y_interpolants:
            same = c.all([c.eq(it.t0, t_prev), c.eq(it.t1, t_next)])
            if (same if isinstance(same, bool) else bool(same)):
                piece = it
        # part A assumes that the dense output it is handed answers queries inside the bracket from the interpolant of THIS step
        lookup_ok = False
        if piece is not None:
            try:
                idx_ = int(sol.find_interval(t_prev + 0.5 * (t_next - t_prev)))
                lookup_ok = sol.y_interpolants[idx_] is piece
            except Exception:
                lookup_ok = False
        if terminate and self.landing_fault is not None and self.rhs is not None and not self.landing_armed:
            # the user's rhs will raise at its j-th evaluation made while the step is re-taken up to the terminal event
            self.landing_armed = True
            self.rhs.fault_at = len(self.rhs.calls) + self.landing_fault
        self.calls.append(dict(k=k, t_prev=t_prev, t_next=t_next, reported=rep, terminate=terminate, piece=piece, lookup_ok=lookup_ok, flags_ok=flags_ok,
                               n_pieces=len(sol.y_interpolants), rows_visible=len(self.system.t) if self.system is not None else None,
                               dt_in_use=self.system.dt if self.system is not None else None))
        idx = np.array([r["i"] for r in rep], dtype=np.int64)
        roots = c.array([r["root"] for r in rep])
        return idx, roots, terminate, [r["ev"] for r in rep]


def oracle_interface_mismatch(cause):
    """integrate() and the events oracle no longer speak the same interface (handle_events was given another signature or return shape):
    the oracle cannot stand in for it - a limitation of the harness, reported as such (instance inconclusive), never as a verdict"""
    if isinstance(cause, (TypeError, ValueError)) and any(k in str(cause) for k in ("values to unpack", "positional argument", "unexpected keyword argument")):
        from srx import core
        raise core.Unsupported("events oracle is incompatible with the interface of differential_system.handle_events: %r" % (cause,))


def steps_that_recorded_rows(oracle, n_rows_final):
    """number of outer steps (completed detector calls) after which at least one new row was recorded (a terminal event sitting exactly on
    the start of its step leaves nothing recorded)"""
    vis = [call["rows_visible"] for call in oracle.calls] + [n_rows_final]
    return sum(1 for i in range(len(oracle.calls)) if vis[i + 1] > vis[i])


def spec_events(c, oracle):
    """reference semantics: all oracle reports in order, minus repeats of the same event within eps^0.7 of its previous occurrence"""
    out = []
    last = {}
    for call in oracle.calls:
        for r in call["reported"]:
            prev = last.get(r["i"])
            dup = prev is not None and bool(absval(c, r["root"] - prev) <= EPS07)
            if not dup:
                out.append(dict(r, k=call["k"], t_prev=call["t_prev"], t_next=call["t_next"], piece=call["piece"]))
                last[r["i"]] = r["root"]
    return out


def _eqv(c, a, b, scale=1):
    fa, fb = flat(c, a), flat(c, b)
    return len(fa) == len(fb) and c.all([c.eq(u, v, scale) for u, v in zip(fa, fb)])


def build_events(inst):
    evs = []
    for j, spec in enumerate(inst["events"]):
        evs.append(Ev("e%d" % j, terminal=(spec == "T"), direction=0))
    return evs


def scenario(c, inst, props):
    """props: subset of {'C03','C06','C07','C08','C09'} whose assertions are evaluated"""
    props = set(props)
    import desolver.differential_system as ds
    if c.symbolic:
        c.ackermann = False
    fam = inst["family"]
    method, shape, kind = spans.FAMILIES[fam]
    t0, dt0 = c.real("t0"), c.real("dt0")
    infinite = inst.get("infinite_tf", False)
    if infinite:
        tf = float("-inf") if infinite == "neg" else float("inf")
        c.assume(dt0 != 0)
        c.assume(absval(c, dt0) >= 1.0 / 64)
        c.assume(absval(c, dt0) <= 256)
        c.assume(t0 <= 64)
        c.assume(t0 >= -64)
        adt = absval(c, dt0)
    else:
        tf = c.real("tf")
        span, adt = spans.input_assumptions(c, inst, t0, tf, dt0)
        if inst.get("dt_le_span"):
            c.assume(adt <= span)
    dense = inst.get("dense", True)
    rhs = FreshRhs(c, shape, name="f", mode="uf")
    rhs.ignore_kw = bool(inst.get("swap_constants"))       # (here the constants only matter to the event functions)
    probe = FreshRhs(c, shape, name="f", mode="uf")
    st, built = run(spans.build_system, c, inst, t0, tf, dt0, dense, rhs, (dict(k=c.real("k_old")) if inst.get("swap_constants") else None))
    if st != "ok":
        c.check("%s.constructs" % min(props).lower(), False, info=repr(built))
        return
    a, _, log = built
    events = build_events(inst)
    has_terminal = any(e.is_terminal for e in events)
    oracle = EventsOracle(c, max_total=inst.get("max_reports", 3), max_calls=inst["N"] + 2,
                          terminal_by=(inst["N"] if infinite else None))
    oracle.system = a
    cb_calls = []

    def cb(system):
        cb_calls.append(len(system.t))
        if inst.get("swap_constants") and len(cb_calls) == 1:
            # a step callback installs new constants (a staged system): rhs AND event functions see them from the next step on
            system.constants = dict(k=c.real("k_new"))
    backward = (infinite == "neg") or ((not infinite) and bool(tf - t0 < 0))
    sgn = -1 if backward else 1
    oracle.fault_call = inst.get("fault_call")
    oracle.landing_fault = inst.get("landing_fault")
    oracle.rhs = rhs
    if "C12" in props:
        return _landing_fault(c, inst, a, rhs, oracle, events, cb, t0, tf, adt, sgn, dense, kind, infinite)
    if inst.get("reversal"):
        # history: the span is integrated forward WITHOUT events, then the system is sent back to its start time with events monitored
        # (shooting back and forth): every step of the way back is examined on ITS OWN interpolant, not on a piece of the forward leg
        st, r = run(a.integrate, callback=[cb])
        if st != "ok":
            return
        with patched(ds, "handle_events", oracle):
            st, r = run(a.integrate, t0, events=events, callback=[cb])
        if st != "ok":
            cause = getattr(r, "__cause__", None)
            oracle_interface_mismatch(cause)
            if not isinstance(cause, StepCap):
                c.check("%s.integrate_with_events_returns" % min(props).lower(), False, info=repr(r) + " / " + repr(cause))
            return
        c.case()
        rec = list(a.events)
        spec = spec_events(c, oracle)
        P = min(props).lower()
        c.check(P + ".reversal.detector_is_handed_the_interpolant_of_the_step_under_examination",
                all(call["piece"] is not None and call["lookup_ok"] for call in oracle.calls), info=dict(calls=[(call["piece"] is not None, call["lookup_ok"]) for call in oracle.calls]))
        if len(rec) == len(spec):
            c.check(P + ".reversal.event_state_is_step_interpolant_at_event_time",
                    c.all([(_eqv(c, e.y, s_["piece"](e.t), 64) if s_["piece"] is not None else False) for e, s_ in zip(rec, spec)]))
        c.check(P + ".reversal.every_detected_crossing_is_recorded_once", len(rec) == len(spec) and
                c.all([c.all([c.eq(e.t, s_["root"]), e.event is s_["ev"]]) for e, s_ in zip(rec, spec)]), info=dict(rec=len(rec), spec=len(spec)))
        return
    with patched(ds, "handle_events", oracle):
        if inst.get("two_calls"):
            # the span is covered by two integrate(events=...) calls: a crossing found at the very end of the first call is met again at
            # the very start of the second (the detector may report it both times: same event, same time)
            T1 = t0 + 0.5 * (tf - t0)
            st, r = run(a.integrate, T1, events=events, callback=[cb])
            if st != "ok":
                return
            if inst.get("flip_direction"):
                events[0].direction = -1 if events[0].direction >= 0 else 1
            if inst.get("flip_terminal"):
                # between the calls the user changes an attribute of the (same) event function object
                events[0].is_terminal = not events[0].is_terminal
                has_terminal = any(e.is_terminal for e in events)
        st, r = run(a.integrate, events=events, callback=[cb])
        if oracle.faulted:
            # history: the event search of one step raised; the caller simply calls integrate() again with the same events
            from desolver.exception_types import FailedIntegration
            for p in props:
                c.check("%s.event_fault_raises_FailedIntegration" % p.lower(), st == "exc" and isinstance(r, FailedIntegration) and isinstance(r.__cause__, EventFault),
                        info=repr(r)[:120])
            st, r = run(a.integrate, events=events, callback=[cb])
    P7, P8, P9 = "c07", "c08", "c09"
    if st != "ok":
        cause = getattr(r, "__cause__", None)
        if isinstance(cause, StepCap):
            return
        oracle_interface_mismatch(cause)
        for p in props:
            c.check("%s.integrate_with_events_returns" % p.lower(), False, info=repr(r) + " / " + repr(cause))
        return
    c.case()
    rec = list(a.events)
    spec = spec_events(c, oracle)
    terminated = any(call["terminate"] for call in oracle.calls)
    c.note("rows", len(a.t))
    c.note("recorded_events", len(rec))
    c.note("oracle_reports", sum(len(call["reported"]) for call in oracle.calls))
    T = list(a.t)
    if props & {"C07", "C08", "C09"}:
        c.check("%s.detector_is_handed_the_current_event_attributes" % min(props & {"C07", "C08", "C09"}).lower(), all(call["flags_ok"] for call in oracle.calls),
                info=dict(calls=[call["flags_ok"] for call in oracle.calls]))
    if inst.get("flip_terminal"):
        # (the single-stop assertions below do not apply to a history whose first call may already have stopped at the event)
        last = oracle.calls[-1] if oracle.calls else None
        if last is not None and last["terminate"]:
            c.check("c09.flip.run_stops_at_the_event_that_is_terminal_now", c.le(absval(c, T[-1] - last["reported"][-1]["root"]), 64 * spans.EPS64 * 64))
        elif last is not None and not infinite:
            c.check("c09.flip.run_without_terminal_stop_reaches_the_target", c.le(absval(c, T[-1] - tf), 64 * spans.EPS64 * 64))
        return
    if props & {"C07", "C08"}:
        c.check("%s.detector_is_handed_the_interpolant_of_the_step_under_examination" % min(props & {"C07", "C08"}).lower(),
                all(call["piece"] is not None and call["lookup_ok"] for call in oracle.calls), info=dict(calls=[(call["piece"] is not None, call["lookup_ok"]) for call in oracle.calls]))
    if props & {"C08", "C09"}:
        # every recorded step was examined by the detector: it lies inside the bracket of some completed detector call (the sub-steps
        # taken to land on a terminal root lie inside the bracket of the step they replace)
        cov = []
        for i in range(len(T) - 1):
            cov.append(c.any([c.all([c.le(0, (T[i] - call["t_prev"]) * (call["t_next"] - T[i]), 64),
                                     c.le(0, (T[i + 1] - call["t_prev"]) * (call["t_next"] - T[i + 1]), 64)]) for call in oracle.calls]
                             ) if oracle.calls else False)
        c.check("%s.every_recorded_step_was_examined_by_the_detector" % min(props & {"C08", "C09"}).lower(), c.all(cov), info=dict(rows=len(T), calls=len(oracle.calls)))
    if "C04" in props:
        # fixed-step method, no user intervention: also in a run with events every step that is not the last of its leg has the requested
        # magnitude - the legs being: up to a terminal event (the landing sub-steps are shorter by construction), and the continuation
        steps = [absval(c, T[i + 1] - T[i]) for i in range(len(T) - 1)]
        c.check("c04.events.no_step_longer_than_requested", c.all([c.le(s_, adt, 1) for s_ in steps]))
        if terminated and not infinite:
            n0 = len(T)
            rem = absval(c, tf - T[-1])
            # the continuation goes to a NEW target far enough for the requested step to fit (integrate() halves an over-long step when a
            # call starts); the working step the run left behind is the requested one
            T2 = c.real("T2")
            c.assume((T2 - T[-1]) * sgn > 0)
            c.assume(absval(c, T2 - T[-1]) >= adt)
            c.assume(absval(c, T2 - T[-1]) <= inst["N"] * adt)
            c.check("c04.events.working_step_after_the_stop_is_the_requested_one", c.eq(absval(c, a.dt), adt, 1), info=dict(rows=n0))
            if True:
                st2, r2 = run(a.integrate, T2, callback=[spans.cap_callback(c, inst["N"] + 6, kind)])
                if st2 == "ok":
                    T2 = list(a.t)
                    cont = [absval(c, T2[i + 1] - T2[i]) for i in range(n0 - 1, len(T2) - 1)]
                    c.check("c04.events.continuation_steps_have_requested_size", c.all([c.eq(s_, adt, 1) for s_ in cont[:-1]]),
                            info=dict(steps=len(cont)))
                    c.check("c04.events.continuation_no_step_longer_than_requested", c.all([c.le(s_, adt, 1) for s_ in cont]))
        else:
            c.check("c04.events.non_final_steps_have_requested_size", c.all([c.eq(s_, adt, 1) for s_ in steps[:-1]]))
        return
    if "C20" in props:
        # callbacks: once per outer step (the sub-steps taken to land on a terminal event share one final invocation), each invocation
        # sees rows recorded since the previous one
        c.check("c20.events.callbacks_once_per_outer_step", len(cb_calls) == steps_that_recorded_rows(oracle, len(T)),
                info=dict(callbacks=len(cb_calls), outer_steps=len(oracle.calls), steps_with_rows=steps_that_recorded_rows(oracle, len(T)), rows=len(T)))
        c.check("c20.events.every_invocation_sees_new_rows", all(cb_calls[i] < cb_calls[i + 1] for i in range(len(cb_calls) - 1)) and (not cb_calls or cb_calls[0] >= 2),
                info=dict(rows_seen=cb_calls))
        c.check("c20.events.last_invocation_sees_the_final_row", (not cb_calls) or cb_calls[-1] == len(T), info=dict(rows_seen=cb_calls, rows=len(T)))
        return
    if "C03" in props:
        # the grid properties of C03 on runs that monitor events (buffer growth inside the event section, re-recorded steps)
        c.check("c03.events.first_row_is_initial_condition", c.all([c.eq(T[0], t0), _eqv(c, a.y[0], c.array([c.real("y0_%d" % i) for i in range(int(np.prod(shape)))]).reshape(shape))]))
        c.check("c03.events.paired", len(a.t) == len(a.y))
        c.check("c03.events.strictly_monotone", c.all([c.lt(0, sgn * (T[i + 1] - T[i])) for i in range(len(T) - 1)]))
        if not terminated and not infinite:
            spans.segment_checks(c, "c03.events", a, 0, t0, tf)
            c.check("c03.events.status_completed", spans.status_ok(a) or oracle.faulted, info=a.integration_status[:60])
        return
    # ------------------------------------------------------------------ C07: soundness, location, order, uniqueness
    if "C07" in props:
        ok_sound, ok_inside, ok_state = [], [], []
        for e in rec:
            match = [c.all([c.eq(e.t, s["root"]), e.event is s["ev"]]) for s in spec]
            ok_sound.append(c.any(match) if match else False)
        c.check(P7 + ".every_recorded_event_was_reported_by_the_detector", c.all(ok_sound), info=dict(rec=len(rec), spec=len(spec)))
        if len(rec) == len(spec):
            for e, s in zip(rec, spec):
                ok_inside.append(c.le(0, (e.t - s["t_prev"]) * (s["t_next"] - e.t), 64))
                if s["piece"] is not None:
                    ok_state.append(_eqv(c, e.y, s["piece"](e.t), 64))
                else:
                    ok_state.append(False)
            c.check(P7 + ".event_time_inside_its_step", c.all(ok_inside))
            c.check(P7 + ".event_state_is_step_interpolant_at_event_time", c.all(ok_state))
            # the same with a margin (|difference| <= 2^-20): a counterexample of this form survives the rounding of the float replay even when
            # the two times involved are very close to each other
            gap = []
            for e, s_ in zip(rec, spec):
                if s_["piece"] is not None:
                    gap += [c.le(absval(c, u - v), 2.0 ** -20, 64) for u, v in zip(flat(c, e.y), flat(c, s_["piece"](e.t)))]
            c.check(P7 + ".event_state_is_step_interpolant_at_event_time_within_2^-20", c.all(gap))
        order = [c.le(0, sgn * (rec[j + 1].t - rec[j].t), 64) for j in range(len(rec) - 1)]
        c.check(P7 + ".events_in_integration_order", c.all(order))
        uniq = []
        for i in range(len(rec)):
            for j in range(i + 1, len(rec)):
                if rec[i].event is rec[j].event:
                    uniq.append(c.lt(EPS07, absval(c, rec[i].t - rec[j].t), 1))
        c.check(P7 + ".no_crossing_reported_twice", c.all(uniq))
    # ------------------------------------------------------------------ C08: completeness of the recording stage
    if "C08" in props:
        found = []
        for s in spec:
            match = [c.all([c.eq(e.t, s["root"]), e.event is s["ev"]]) for e in rec]
            found.append(c.any(match) if match else False)
        c.check(P8 + ".every_detected_crossing_is_recorded", c.all(found), info=dict(rec=len(rec), spec=len(spec), dense=dense, backward=backward))
        c.check(P8 + ".distinct_events_never_merged", len(rec) >= len(spec), info=dict(rec=len(rec), spec=len(spec)))
    # ------------------------------------------------------------------ C06: dense output after events / event-terminated runs / continuation
    if "C06" in props and dense:
        from .c06_dense import lookup_checks
        if len(T) < 2:
            c.note("outcome", "terminal event at the start time: no step recorded, the integrated range is a single point")
            return
        piece_checks(c, "c06.events", a, probe, backward)
        vals = []
        for i in reversed(range(len(T))):       # newest first: the first scalar query after the run is at the time the run stopped
            st_, v_ = run(a.sol, T[i])
            vals.append(st_ == "ok" and _eqv(c, v_, a.y[i]))
        c.check("c06.events.solution_at_recorded_times_is_recorded_state", c.all(vals), info=dict(terminated=terminated, backward=backward))
        if len(T) >= 2:
            q = c.real("q")
            c.assume((q - T[0]) * (T[-1] - q) >= 0)
            lookup_checks(c, "c06.events", a, q, backward)
        if terminated and not infinite:
            rem = absval(c, tf - T[-1])
            if bool(rem >= 1.0 / 64) and bool(rem <= 2 * absval(c, a.dt)):
                st2, r2 = run(a.integrate, callback=[spans.cap_callback(c, 6, kind)])
                if st2 == "ok":
                    piece_checks(c, "c06.events.continued", a, probe, backward)
                    q2 = c.real("q2")
                    c.assume((q2 - a.t[0]) * (a.t[-1] - q2) >= 0)
                    lookup_checks(c, "c06.events.continued", a, q2, backward)
        return
    # ------------------------------------------------------------------ C09: terminal events
    if "C09" in props:
        if terminated:
            term_call = [call for call in oracle.calls if call["terminate"]][0]
            troot = term_call["reported"][-1]["root"]
            scale = 64 * spans.EPS64 * 64
            c.check(P9 + ".stops_at_event_time", c.le(absval(c, T[-1] - troot), scale))
            c.check(P9 + ".status_terminated_by_event_is_success",
                    a.integration_status == "Integration terminated upon finding a triggered event." and bool(a.success), info=a.integration_status[:60])
            c.check(P9 + ".no_detector_call_after_terminal_event", oracle.calls[-1] is term_call)
            c.check(P9 + ".nothing_recorded_beyond_the_event", c.all([c.le(0, sgn * (troot - tt) + scale, 64) for tt in T]))
            c.check(P9 + ".rows_strictly_monotone", c.all([c.lt(0, sgn * (T[i + 1] - T[i])) for i in range(len(T) - 1)]))
            c.check(P9 + ".last_reported_event_is_the_terminal_one", (c.eq(rec[-1].t, troot, 64) if rec[-1].event is term_call["reported"][-1]["ev"] else False)
                    if len(rec) > 0 else False)
            c.check(P9 + ".callbacks_once_per_outer_step", len(cb_calls) == steps_that_recorded_rows(oracle, len(T)), info=dict(cb=len(cb_calls), steps=len(oracle.calls)))
            if dense:
                piece_checks(c, P9 + ".dense", a, probe, backward)
            # continuation to the requested end
            if not infinite:
                rem = absval(c, tf - T[-1])
                if inst.get("continue_with_events") and bool(rem >= 1.0 / 64) and bool(rem <= 2 * absval(c, a.dt)):
                    # the caller continues WITH the same events (stop, continue, possibly stop again): whatever the detector reports on the way
                    # is recorded under the same rules - in particular the terminal event that ends the second leg, also when another event's
                    # root coincides with it
                    n_calls0 = len(oracle.calls)
                    oracle.max_calls += 3
                    oracle.max_total += 2
                    with patched(ds, "handle_events", oracle):
                        st2, r2 = run(a.integrate, events=events, callback=[spans.cap_callback(c, 6, kind)])
                    if st2 != "ok":
                        cause = getattr(r2, "__cause__", None)
                        if not isinstance(cause, StepCap):
                            c.check(P9 + ".continue_with_events.returns", False, info=repr(r2) + " / " + repr(cause))
                        return
                    rec2 = list(a.events)
                    spec2 = spec_events(c, oracle)
                    c.check(P9 + ".continue_with_events.every_detected_crossing_is_recorded_once", len(rec2) == len(spec2) and
                            c.all([c.all([c.eq(e.t, s_["root"]), e.event is s_["ev"]]) for e, s_ in zip(rec2, spec2)]), info=dict(rec=len(rec2), spec=len(spec2)))
                    new_calls = oracle.calls[n_calls0:]
                    stops = [call for call in new_calls if call["terminate"]]
                    if stops:
                        troot2 = stops[-1]["reported"][-1]["root"]
                        c.check(P9 + ".continue_with_events.second_stop_is_at_its_event", c.le(absval(c, a.t[-1] - troot2), scale))
                    return
                if bool(rem >= 1.0 / 64) and bool(rem <= 2 * absval(c, a.dt)):
                    n0 = len(a.t)
                    st2, r2 = run(a.integrate, callback=[spans.cap_callback(c, 6, kind)])
                    if st2 == "ok":
                        spans.segment_checks(c, P9 + ".continue", a, n0 - 1, T[-1], tf)
                        if dense:
                            piece_checks(c, P9 + ".continue.dense", a, probe, backward)
                    else:
                        cause = getattr(r2, "__cause__", None)
                        if not isinstance(cause, StepCap):
                            c.check(P9 + ".continue.returns", False, info=repr(r2) + " / " + repr(cause))
        else:
            if not infinite:
                if not oracle.faulted:      # (after a failed call the status keeps reporting that failure: not stated otherwise by any property)
                    c.check(P9 + ".without_terminal_event_status_completed", spans.status_ok(a))
                c.check(P9 + ".without_terminal_event_reaches_target", c.le(absval(c, T[-1] - tf), 64 * spans.EPS64 * 64))
                c.check(P9 + ".callbacks_once_per_outer_step", len(cb_calls) == steps_that_recorded_rows(oracle, len(T)) == len(T) - 1, info=dict(cb=len(cb_calls), steps=len(oracle.calls), rows=len(T)))
                if dense:
                    piece_checks(c, P9 + ".dense", a, probe, backward)


def _landing_fault(c, inst, a, rhs, oracle, events, cb, t0, tf, adt, sgn, dense, kind, infinite):
    """C12: a terminal event is found, and the rhs raises while the step is being re-taken up to it"""
    import desolver.differential_system as ds
    from desolver.exception_types import FailedIntegration
    with patched(ds, "handle_events", oracle):
        st, r = run(a.integrate, events=events, callback=[cb])
        if not oracle.landing_armed or rhs.fault_at is None or len(rhs.calls) <= rhs.fault_at:
            c.note("outcome", "no terminal event / the landing made fewer rhs evaluations")
            rhs.fault_at = None
            return
        rhs.fault_at = None
        c.case()
        T = list(a.t)
        c.check("c12.landing.raises_FailedIntegration", st == "exc" and isinstance(r, FailedIntegration), info=repr(r)[:120])
        from .common import InjectedFault
        c.check("c12.landing.failure_carries_the_original_cause", st == "exc" and isinstance(getattr(r, "__cause__", None), InjectedFault),
                info=dict(cause=repr(getattr(r, "__cause__", None))[:120], cause_of_cause=repr(getattr(getattr(r, "__cause__", None), "__cause__", None))[:120]))
        c.check("c12.landing.status_reports_failure", not a.success)
        c.check("c12.landing.rows_paired_and_monotone", len(a.t) == len(a.y) and c.all([c.eq(T[0], t0)] + [c.lt(0, sgn * (T[i + 1] - T[i])) for i in range(len(T) - 1)]))
        c.check("c12.landing.recorded_events_lie_in_recorded_range", c.all([c.le(0, sgn * (T[-1] - e.t) + 64 * spans.EPS64 * 64, 64) for e in a.events]),
                info=dict(events=len(a.events), rows=len(T)))
        if kind == "fixed":
            # (the step in use when the terminal event was found: integrate() may legitimately have halved an over-long requested step)
            c.check("c12.landing.working_step_is_still_the_one_in_use_before", c.eq(absval(c, a.dt), absval(c, oracle.calls[-1]["dt_in_use"]), 1))
        if dense:
            sol = a.sol
            pieces = 0 if sol is None or sol.t_eval is None else len(sol.t_eval)
            c.check("c12.landing.dense_output_one_piece_per_recorded_step", pieces == len(T) - 1, info=dict(pieces=pieces, rows=len(T)))
        # the caller calls integrate() again with the same events: the run stops at the terminal event, which is recorded once
        n_calls = len(oracle.calls)
        last = oracle.calls[-1]
        oracle.pending = [dict(i=r_["i"], root=r_["root"]) for r_ in last["reported"] if bool(sgn * (r_["root"] - T[-1]) > 0)]
        # (what the abandoned call had reported beyond the recorded rows is not part of the reference list until it is found again)
        last["reported"] = [r_ for r_ in last["reported"] if not bool(sgn * (r_["root"] - T[-1]) > 0)]
        st2, r2 = run(a.integrate, events=events, callback=[cb])
        if st2 != "ok":
            cause = getattr(r2, "__cause__", None)
            if not isinstance(cause, StepCap):
                c.check("c12.landing.second_call_returns", False, info=repr(r2)[:160])
            return
        spec = spec_events(c, oracle)
        rec = list(a.events)
        c.check("c12.landing.after_resume_every_crossing_is_recorded_once", len(rec) == len(spec) and
                c.all([c.all([c.eq(e.t, s_["root"]), e.event is s_["ev"]]) for e, s_ in zip(rec, spec)]), info=dict(rec=len(rec), spec=len(spec)))


def _e2e_level_change(c, inst, props, t0, tf, shape):
    """two integrate(events=...) calls of one step each with the REAL detector and root finder; the event g = alpha*(t - level) reads its
    level from the system's constants, which are replaced between the calls: the crossing at the new level, inside the first step of
    the second call, is reported (and so was the one at the old level inside the first call)"""
    alpha = inst["alpha"]
    dt0 = (tf - t0) / 2
    tm = t0 + dt0
    lam1, lam2 = c.real("rho1"), c.real("rho2")
    for lam in (lam1, lam2):
        c.assume(lam > 1.0 / 64)
        c.assume(lam < 63.0 / 64)
    L1 = t0 + lam1 * dt0
    L2 = tm + lam2 * dt0
    rhs = FreshRhs(c, shape, name="f", mode="uf")
    rhs.ignore_kw = True
    st, built = run(spans.build_system, c, dict(inst, N=2), t0, tf, dt0, inst.get("dense", True), rhs, dict(level=L1))
    P = min(props).lower() + ".e2e.level_change"
    if st != "ok":
        c.check(P + ".constructs", False, info=repr(built))
        return
    a, _, log = built

    def ev(t, y, level=None, **kw):
        return alpha * (t - level)
    ev.is_terminal = False
    ev.direction = 0
    st, res = run(a.integrate, tm, events=[ev])
    if st != "ok":
        c.check(P + ".first_call_returns", False, info=repr(res) + " / " + repr(getattr(res, "__cause__", None)))
        return
    n1 = len(a.events)
    a.constants = dict(level=L2)
    st, res = run(a.integrate, events=[ev])
    if st != "ok":
        c.check(P + ".second_call_returns", False, info=repr(res) + " / " + repr(getattr(res, "__cause__", None)))
        return
    c.case()
    rec = list(a.events)
    tol_x = 64 * spans.EPS64 * 64
    c.check(P + ".crossing_of_the_first_call_is_reported", n1 == 1 and c.le(absval(c, rec[0].t - L1), tol_x) if n1 >= 1 else False, info=dict(n1=n1))
    c.check(P + ".crossing_at_the_new_level_is_reported", len(rec) == n1 + 1 and c.le(absval(c, rec[-1].t - L2), tol_x) if len(rec) > n1 else False,
            info=dict(events=len(rec), after_first_call=n1))


def scenario_e2e(c, inst, props):
    """End-to-end cross-check: REAL integrate + REAL handle_events + REAL brentsrootvec on a time event g = alpha*(t - r)
    (alpha concrete over several orders of magnitude, r symbolic strictly inside the single step)."""
    if c.symbolic:
        c.ackermann = False
    fam = inst["family"]
    method, shape, kind = spans.FAMILIES[fam]
    t0, tf = c.real("t0"), c.real("tf")
    c.assume(absval(c, tf - t0) >= 1.0 / 64)
    c.assume(absval(c, tf - t0) <= 64)
    for v in (t0, tf):
        c.assume(v <= 64)
        c.assume(v >= -64)
    alpha = inst["alpha"]
    if inst.get("level_change_two_calls"):
        return _e2e_level_change(c, inst, props, t0, tf, shape)
    near_boundary = bool(inst.get("root_near_inner_boundary"))
    if near_boundary:
        # two steps; the crossing lies within 1e-9 of the boundary between them (either side)
        dt0 = (tf - t0) / 2
        delta = c.real("delta")
        c.assume(absval(c, delta) <= 1e-9)
        c.assume(absval(c, delta) >= 2.0 ** -40)
        r = t0 + dt0 + delta
    else:
        dt0 = tf - t0                      # exactly one step
        lam = c.real("rho")
        c.assume(lam > 1.0 / 64)
        c.assume(lam < 63.0 / 64)
        r = t0 + lam * (tf - t0)
    dense = inst.get("dense", True)
    rhs = FreshRhs(c, shape, name="f", mode="uf")
    st, built = run(spans.build_system, c, dict(inst, N=2 if near_boundary else 1), t0, tf, dt0, dense, rhs)
    if st != "ok":
        c.check("%s.e2e.constructs" % min(props).lower(), False, info=repr(built))
        return
    a, _, log = built

    def ev(t, y, **kw):
        return alpha * (t - r)
    ev.is_terminal = bool(inst.get("terminal", False))
    ev.direction = inst.get("direction", 0)
    backward = bool(tf - t0 < 0)
    st, res = run(a.integrate, events=[ev])
    P = min(props).lower() + ".e2e"
    if st != "ok":
        c.check(P + ".integrate_returns", False, info=repr(res) + " / " + repr(getattr(res, "__cause__", None)))
        return
    c.case()
    rec = list(a.events)
    c.note("recorded_events", len(rec))
    # the crossing direction along the direction of integration
    up_along = (alpha > 0) != backward
    wanted = ev.direction == 0 or (ev.direction > 0) == up_along
    tol_x = 64 * spans.EPS64 * 64
    if "C08" in props:
        if wanted:
            c.check(P + ".interior_crossing_is_reported", len(rec) >= 1, info=dict(alpha=alpha, backward=backward, dense=dense, direction=ev.direction))
    if "C07" in props:
        if not wanted:
            c.check(P + ".crossing_in_unrequested_direction_not_reported", len(rec) == 0, info=dict(alpha=alpha, direction=ev.direction))
        # (S45, repaired: for a shallow event function the step that does NOT contain the crossing used to get a "root" at its end point,
        # because |g(end)| <= tol is certified without a sign change; the region key below is not listed in KNOWN_FINDINGS.txt, so it masks nothing)
        shallow = None
        if near_boundary:
            shallow = {KEY_SHALLOW: c.le(abs(alpha) * absval(c, r - (t0 + dt0)), 4 * spans.EPS64 * 1.0001)}
        c.check(P + ".at_most_one_report_per_crossing", len(rec) <= 1, info=dict(n=len(rec)), regions=shallow)
        for e in rec:
            c.check(P + ".event_time_is_the_root", c.le(absval(c, e.t - r), tol_x), info=dict(alpha=alpha), regions=shallow)
            c.check(P + ".event_function_vanishes_at_event", c.le(absval(c, alpha * (e.t - r)), abs(alpha) * tol_x))
    if "C09" in props and ev.is_terminal and wanted:
        c.check(P + ".stops_at_event", c.le(absval(c, a.t[-1] - r), tol_x) and
                a.integration_status == "Integration terminated upon finding a triggered event." if len(rec) else False, info=dict(rows=len(a.t)))
