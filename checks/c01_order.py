"""C01 - every integrator attains its declared order of accuracy (rooted-tree order conditions through the real step)."""
from __future__ import annotations

import numpy as np

from srx import trees as T
from .common import patched, ctrl_stub, run, flat

PROPERTY = "C01"
LEVEL = "other"
EXPLANATION = (
    "Order conditions are computed BY THE REAL CODE: for a rooted tree tau the polynomial 'tree system' (one component per vertex, "
    "y_v' = product of the children, start at 0) is integrated for one step of symbolic size h by the real integrator __call__ "
    "(compute_step / RungeKuttaIntegrator.step / algebraic_system / ExplicitSymplecticIntegrator.step / adaptive_richardson) from the "
    "real class attributes; the root component then equals Phi(tau)*h^|tau| exactly, the exact flow gives h^|tau|/gamma(tau), and "
    "z3 decides for all h that |dY_root - h^n/gamma| <= 2^-23 * h^n/gamma (the slack covers the rounding of the 16-digit tables) or, for the tiny "
    "high-order weights that are sums of O(1) terms with cancellation, <= 2^-30 * Phi_abs(tau) h^n where Phi_abs is the same elementary weight computed by the "
    "same real code from the element-wise absolute coefficients (backward-error scale; a third-digit coefficient error is >= 1e-5 * Phi_abs). "
    "'order >= p' <=> all trees of order <= p pass (Butcher).  Embedded rows: error estimate on y'=1 is 0 (sum b_hat = 1).  "
    "c_i = sum_j a_ij is observed through the non-autonomous systems y' = t^k.  Splitting schemes: bicoloured trees with alternating "
    "colours (separable systems) through the real drift/kick loop with the default mask.  Richardson wrappers (2..5 levels): all trees "
    "of order <= p of the wrapped method pass ('never lower'), and with >= 3 levels all trees of order p+1 pass ('strictly higher'), "
    "on every path of the real convergence test.")
ASSUMPTIONS = [
    "real arithmetic over the exact rational value of each float64 coefficient; slack 2^-23 relative per elementary weight",
    "Butcher's theorem (order p <=> all rooted-tree conditions up to p) and the local->global convergence theorem are the trusted mathematical base",
    "implicit classes: optimizer.nonlinear_roots replaced by the exact_root stub = Picard sweeps of the REAL algebraic_system (the tree systems are nilpotent, "
    "|tau|+1 sweeps reach the exact root; the residual is checked to vanish identically); broyden_update_jac replaced by the identity (quasi-Newton Jacobian is not part of the claim)",
    "integrator.update_timestep replaced by the ctrl stub with corr = 1 (step control is C05)",
    "RadauIIA19: trees up to order 10 (thorough) through the real code; orders 11..19 via Butcher's simplifying assumptions B(19), C(10), D(9) "
    "evaluated from the class attributes (Butcher 1964: B(p), C(eta), D(zeta), p <= eta+zeta+1, p <= 2*eta+2 => order p)",
]
BOUNDS = {
    "quick": dict(tree_order="<= min(declared order, 7) (85 trees), RadauIIA19 <= 6", richardson="levels 2..4 around Euler, Midpoint, RK4, SymplecticEuler; 5 levels thorough only"),
    "thorough": dict(tree_order="all trees up to the declared order (RK1412: 53272 trees), RadauIIA19 <= 10 + simplifying assumptions",
                     richardson="levels 2..5 around Euler, Midpoint, RK4, DOPRI45, ImplicitMidpoint, SymplecticEuler"),
}
OUTSIDE = ["passage from local order to 'halving the step divides the global error by 2^p' (classical theorem)", "float rounding of the step itself",
           "coefficient errors below 2^-23 relative in an elementary weight"]

SLACK = 2.0 ** -23          # relative slack on Phi*gamma = 1
SLACK_ABS = 2.0 ** -30      # backward-error slack: |Phi - 1/gamma| <= SLACK_ABS * Phi_abs (Phi_abs = elementary weight of the |coefficients|)


def _explicit():
    import desolver.integrators as I
    return list(I.explicit_methods())


def _implicit():
    import desolver.integrators as I
    return list(I.implicit_methods())


def _cls(name):
    import desolver.integrators as I
    return getattr(I, name)


def instances(tier):
    import desolver.integrators as I
    out = []
    quick = tier == "quick"
    b = dict(wall_s=80 if quick else 800, max_paths=50)
    for cls in _explicit() + _implicit():
        p = int(cls.__order__)
        symp = issubclass(cls, I.ExplicitSymplecticIntegrator)
        if cls.__name__ == "RadauIIA19":
            pmax = 6 if quick else 10
        else:
            pmax = min(p, 7) if quick else p
        ntrees = sum(len(T.trees_of_order(n)) for n in range(1, pmax + 1)) * (2 if symp else 1)
        stages = np.asarray(cls.tableau_intermediate).shape[0]
        per_chunk = max(20, int((4000 if quick else 30000) / max(1, stages)))
        nchunks = max(1, -(-ntrees // per_chunk))
        for k in range(nchunks):
            out.append(dict(id="trees-%s-p%d-%d/%d" % (cls.__name__, pmax, k + 1, nchunks), kind="split" if symp else "trees", cls=cls.__name__,
                            pmax=pmax, chunk=k, nchunks=nchunks, budget=b))
        if symp:
            out.append(dict(id="trees-2d-layout-%s-p%d" % (cls.__name__, min(p, 3 if quick else 4)), kind="split", cls=cls.__name__,
                            pmax=min(p, 3 if quick else 4), chunk=0, nchunks=1, layout2d=True, budget=b))
        if not symp:
            out.append(dict(id="aux-%s" % cls.__name__, kind="aux", cls=cls.__name__, pmax=min(p, 10 if not quick else 7), budget=b))
            out.append(dict(id="warm-%s" % cls.__name__, kind="warm", cls=cls.__name__, pmax=min(p, 3 if quick else 5), budget=b))
    # process history: an integrator of the scheme was first built in a NARROWER precision (a float32 system used the method earlier in the
    # session); the coefficients a later integrator uses still satisfy the low-order conditions to float64 rounding level (slack 2^-40)
    for nm in (("RK45CKSolver", "DOPRI45") if quick else ("RK45CKSolver", "DOPRI45", "RK4Solver", "RK8713MSolver", "RK108Solver", "GaussLegendre4", "RadauIIA5")):
        out.append(dict(id="narrower-precision-first-%s" % nm, kind="precision_history", cls=nm, pmax=3 if quick else 4, budget=b))
    out.append(dict(id="simplifying-RadauIIA19", kind="simplifying", cls="RadauIIA19", budget=b))
    bases = ["EulerSolver", "MidpointSolver", "RK4Solver", "SymplecticEulerSolver", "ImplicitMidpoint"] if quick else \
        ["EulerSolver", "MidpointSolver", "RK4Solver", "DOPRI45", "ImplicitMidpoint", "SymplecticEulerSolver"]
    for bn in bases:
        for L in ([2, 3, 4] if quick else [2, 3, 4, 5]):
            out.append(dict(id="richardson-%s-L%d" % (bn, L), kind="richardson", cls=bn, levels=L,
                            budget=dict(wall_s=80 if quick else 800, max_paths=400)))
    # the order conditions on the SECOND step taken by one wrapper object (how OdeSystem drives it): whatever the first step left in the
    # object must not shorten the extrapolation of the next one
    for bn, L in ([("EulerSolver", 3), ("MidpointSolver", 4)] if quick else [(b_, L_) for b_ in bases for L_ in (3, 4, 5)]):
        out.append(dict(id="richardson-%s-L%d-second-step-of-the-object" % (bn, L), kind="richardson", cls=bn, levels=L, second_step=True,
                        budget=dict(wall_s=80 if quick else 800, max_paths=400)))
    return out


# ---------------------------------------------------------------------------------------------


class TreeRhs:
    """rhs of the tree system; optional two-colouring for separable (drift/kick) layout"""

    def __init__(self, c, children, index=None, dim=None):
        self.c = c
        self.children = children
        self.index = index if index is not None else list(range(len(children)))
        self.dim = dim if dim is not None else len(children)

    def __call__(self, t, y, **kw):
        out = [0] * self.dim
        for v, ch in enumerate(self.children):
            p = 1
            for w in ch:
                p = p * y[self.index[w]]
            out[self.index[v]] = p
        if "s" in kw:           # the equation's parameter: y' = s * F(y)
            out = [kw["s"] * o for o in out]
        return self.c.array(out)

    def jac(self, t, y, **kw):
        n = self.dim
        return self.c.array([[0] * n for _ in range(n)])


class PowRhs:
    """y' = t^k (non-autonomous leaf): exercises the c column"""

    def __init__(self, c, k):
        self.c = c
        self.k = k

    def __call__(self, t, y, **kw):
        v = 1
        for _ in range(self.k):
            v = v * t
        return self.c.array([v])

    def jac(self, t, y, **kw):
        return self.c.array([[0]])


def picard_root_stub(c, sweeps):
    """exact_root: Picard sweeps of the real residual (nilpotent systems); residual must vanish identically"""
    def stub(f, x0, jac=None, tol=None, verbose=False, maxiter=200, use_scipy=True, additional_args=tuple(),
             additional_kwargs=dict(), var_bounds=None):
        shape = np.shape(x0)
        K = 0 * x0
        for _ in range(sweeps):
            R = np.reshape(f(K, *additional_args), shape)
            K = K - R
        R = f(K, *additional_args)
        bad = False
        for r in flat(c, R):
            if c.symbolic:
                if getattr(r, "p", None):
                    bad = True
            elif abs(float(r)) > 1e-9:
                bad = True
        if bad:
            raise RuntimeError("harness: Picard sweeps did not reach the exact root of the stage equations")
        return K, (True, sweeps, sweeps, 0, 0.0)
    return stub


def _mk(c, cls, dim):
    dt = np.dtype(object) if c.symbolic else np.dtype(np.float64)
    return cls(dim if isinstance(dim, tuple) else (dim,), dtype=dt, rtol=1e-6, atol=1e-6)


class Reshaped:
    """the same equation with the state stored as an array of another shape (e.g. [positions; momenta] as a (2, n) matrix)"""

    def __init__(self, rhs, shape):
        self.rhs, self.shape = rhs, tuple(shape)

    def __call__(self, t, y, **kw):
        return self.rhs(t, y.reshape(-1), **kw).reshape(self.shape)


def _step(c, cls, rhs, dim, t, h, sweeps, absolute=False, warm=False):
    """one real __call__ from y = 0; returns dState (or raises).  absolute=True: the instance's coefficient arrays are replaced by
    their element-wise absolute values (the backward-error scale Phi_abs of the elementary weight, computed by the same real code)"""
    import desolver.utilities.optimizer as opt
    import desolver.integrators.integrator_types as it
    integ = _mk(c, cls, dim)
    if absolute:
        integ.tableau_intermediate = abs(integ.tableau_intermediate)
        if hasattr(integ, "tableau_final"):
            integ.tableau_final = abs(integ.tableau_final)
    integ.update_timestep = ctrl_stub(c, integ, fixed=1.0)
    if isinstance(dim, tuple):
        n_ = int(np.prod(dim))
        y0 = (c.array([0] * n_) if c.symbolic else np.zeros(n_)).reshape(dim)
    else:
        y0 = c.array([0] * dim) if c.symbolic else np.zeros(dim)
    with patched(opt, "nonlinear_roots", picard_root_stub(c, sweeps)), patched(it, "broyden_update_jac", lambda B, dx, df, Binv=None: B):
        if warm:
            # the same integrator object has just taken a step of a DIFFERENT equation (parameter s = 0) that ends exactly where
            # this step starts; "one step taken from exact data" of the new equation (s = 1) must not inherit anything from it
            integ(rhs, t - h, y0, dict(s=0), h)
            t = getattr(integ, "final_time", t)
            new_h, (dT, dY) = integ(rhs, t, y0, dict(s=1), h)
        else:
            new_h, (dT, dY) = integ(rhs, t, y0, {}, h)
    return integ, dY


def _within(c, got, h, n, g, got_abs=None):
    """|got - h^n/g| <= SLACK * |h^n/g|  or, when the backward-error scale is supplied, <= SLACK_ABS * |got_abs|
    (polynomial inequalities; no abs atoms)"""
    hn = 1
    for _ in range(n):
        hn = hn * h
    ex = hn * (1.0 / g) if not c.symbolic else hn * _frac(1, g)
    d = got - ex
    if c.symbolic:
        ok = d * d <= (SLACK * SLACK) * (ex * ex)
        if got_abs is not None:
            ok = ok | (d * d <= (SLACK_ABS * SLACK_ABS) * (got_abs * got_abs))
        return ok
    ok = bool(abs(d) <= SLACK * abs(ex) + 1e-300)
    if got_abs is not None:
        ok = ok or bool(abs(d) <= SLACK_ABS * abs(got_abs))
    return ok


def _relative_defect(c, got, h, n, g):
    """|Phi*gamma - 1| when got is the monomial Phi*h^n (symbolic mode), else None"""
    if not c.symbolic:
        return None
    p = getattr(got, "p", None)
    if p is None or len(p) != 1:
        return None
    (m, k), = p.items()
    return abs(float(k) * g - 1.0)


def _frac(a, b):
    from fractions import Fraction
    from srx import core
    return core.SymReal(core.p_const(Fraction(a, b)))


def _chunk(items, k, n):
    return [x for i, x in enumerate(items) if i % n == k]


def scenario(c, inst):
    kind = inst["kind"]
    t = c.real("t0")
    h = c.real("h")
    c.assume(h != 0)
    if kind in ("trees", "split"):
        cls = _cls(inst["cls"])
        trees = T.all_trees_up_to(inst["pmax"])
        jobs = []
        if kind == "trees":
            jobs = [(tr, None) for tr in trees]
        else:
            jobs = [(tr, col) for tr in trees for col in (0, 1)]
        jobs = _chunk(jobs, inst["chunk"], inst["nchunks"])
        for tr, col in jobs:
            n = T.order(tr)
            children, sub = T.layout(tr)
            if col is None:
                rhs = TreeRhs(c, children)
                dim = len(children)
                root = 0
            else:
                # alternate colours by depth; colour 0 = drift (first half), 1 = kick (second half)
                colour = [None] * len(children)

                def paint(v, cc):
                    colour[v] = cc
                    for w in children[v]:
                        paint(w, 1 - cc)
                paint(0, col)
                nq = sum(1 for x in colour if x == 0)
                npk = sum(1 for x in colour if x == 1)
                half = max(nq, npk, 1)
                index = [None] * len(children)
                iq = ip = 0
                for v, cc in enumerate(colour):
                    if cc == 0:
                        index[v] = iq
                        iq += 1
                    else:
                        index[v] = half + ip
                        ip += 1
                dim = 2 * half
                rhs = TreeRhs(c, children, index=index, dim=dim)
                root = index[0]
            if inst.get("layout2d") and col is not None:
                # the state stored as a (2, n) matrix [drift variables; kick variables]: same equation, same default partition
                rhs = Reshaped(rhs, (2, dim // 2))
                dim = (2, dim // 2)
            st, r = run(_step, c, cls, rhs, dim, t, h, n + 2)
            if st == "ok" and isinstance(dim, tuple):
                r = (r[0], r[1].reshape(-1))
            name = "c01.tree_condition.%s" % inst["cls"]
            if st != "ok":
                c.check("c01.step_runs", False, info=dict(tree=T.tree_str(tr), err=repr(r)))
                continue
            integ, dY = r
            c.case()
            got_abs = None
            rd = _relative_defect(c, dY[root], h, n, T.gamma(tr))
            if (rd is None and n >= 8) or (rd is not None and rd > SLACK):
                # high-order weights are tiny sums of O(1) terms with cancellation: judge the defect on the backward-error scale Phi_abs
                st2, r2 = run(_step, c, cls, rhs, dim, t, h, n + 2, True)
                if st2 == "ok":
                    got_abs = r2[1].reshape(-1)[root]
            regions = None
            if kind == "split" and inst["cls"] in ("ABAs5o6HSolver", "BABs9o7HSolver") and n >= 5:
                # KNOWN finding: declared order 6/7 holds only for near-harmonic problems; generic order is 4
                regions = {"c01.splitting_declared_order": True}
            c.check(name, _within(c, dY[root], h, n, T.gamma(tr), got_abs),
                    info=dict(cls=inst["cls"], tree=T.tree_str(tr), order=n, colour=col, backward_error_scale=got_abs is not None), regions=regions)
        return
    if kind == "warm":
        cls = _cls(inst["cls"])
        for tr in T.all_trees_up_to(inst["pmax"]):
            n = T.order(tr)
            children, sub = T.layout(tr)
            st, r = run(_step, c, cls, TreeRhs(c, children), len(children), t, h, n + 2, False, True)
            if st != "ok":
                c.check("c01.step_runs", False, info=dict(tree=T.tree_str(tr), err=repr(r), warm=True))
                continue
            c.case()
            c.check("c01.tree_condition_after_parameter_change.%s" % inst["cls"], _within(c, r[1][0], h, n, T.gamma(tr)),
                    info=dict(cls=inst["cls"], tree=T.tree_str(tr), order=n))
        return
    if kind == "precision_history":
        cls = _cls(inst["cls"])
        import desolver.integrators as I
        symp = issubclass(cls, I.ExplicitSymplecticIntegrator)
        for dt_ in (np.float16, np.float32):
            run(cls, (2,) if symp else (1,), dtype=np.dtype(dt_), rtol=1e-3, atol=1e-3)      # earlier users of the scheme in this process
        tight = 2.0 ** -40
        for tr in T.all_trees_up_to(inst["pmax"]):
            n = T.order(tr)
            children, sub = T.layout(tr)
            if symp:
                continue        # (separable layouts are the bicoloured trees of the main instances; the plumbing of the table is shared)
            st, r = run(_step, c, cls, TreeRhs(c, children), len(children), t, h, n + 2)
            if st != "ok":
                c.check("c01.step_runs", False, info=dict(tree=T.tree_str(tr), err=repr(r), history="narrower precision first"))
                continue
            c.case()
            got = r[1][0]
            hn = 1
            for _ in range(n):
                hn = hn * h
            ex = hn * (1.0 / T.gamma(tr)) if not c.symbolic else hn * _frac(1, T.gamma(tr))
            d = got - ex
            ok = (d * d <= (tight * tight) * (ex * ex)) if c.symbolic else bool(abs(d) <= tight * abs(ex) + 1e-300)
            c.check("c01.tree_condition_to_float64_rounding_after_narrower_precision_use.%s" % inst["cls"], ok, info=dict(cls=inst["cls"], tree=T.tree_str(tr), order=n))
        return
    if kind == "aux":
        cls = _cls(inst["cls"])
        # (1) embedded weights are consistent: error estimate on y' = 1 vanishes
        rhs = TreeRhs(c, [[]])
        st, r = run(_step, c, cls, rhs, 1, t, h, 3)
        if st != "ok":
            c.check("c01.step_runs", False, info=repr(r))
            return
        integ, dY = r
        if np.asarray(cls.tableau_final).shape[0] == 2:
            err = integ.get_error_estimate()
            e0 = flat(c, err)[0]
            c.case()
            if c.symbolic:
                c.check("c01.embedded_weights_consistent", e0 * e0 <= 2.0 ** -80)
            else:
                c.check("c01.embedded_weights_consistent", abs(float(e0)) <= 2.0 ** -40)
        # (2) c_i = sum_j a_ij through the non-autonomous leaf systems y' = t^k, started at t = 0
        for k in range(1, inst["pmax"]):
            st, r = run(_step, c, cls, PowRhs(c, k), 1, 0 * h, h, 3)
            if st != "ok":
                c.check("c01.step_runs", False, info=repr(r))
                continue
            integ, dY = r
            c.case()
            c.check("c01.quadrature_condition_with_c", _within(c, dY[0], h, k + 1, k + 1), info=dict(cls=inst["cls"], k=k))
        return
    if kind == "simplifying":
        _simplifying(c, inst)
        return
    if kind == "richardson":
        _richardson(c, inst, t, h)
        return
    raise ValueError(kind)


def _simplifying(c, inst):
    """B(p), C(eta), D(zeta) of RadauIIA19 from the class attributes (exact rationals of the floats), slack relative 2^-23"""
    from fractions import Fraction
    cls = _cls(inst["cls"])
    Tb = np.asarray(cls.tableau_intermediate, dtype=np.float64)
    B = np.asarray(cls.tableau_final, dtype=np.float64)[0, 1:]
    cc = [Fraction(float(x)) for x in Tb[:, 0]]
    A = [[Fraction(float(x)) for x in row[1:]] for row in Tb]
    b = [Fraction(float(x)) for x in B]
    s = len(b)
    p = int(cls.__order__)
    eta, zeta = s, s - 1
    slack = Fraction(1, 2 ** 23)
    ok = True
    worst = Fraction(0)
    for k in range(1, p + 1):           # B(p)
        lhs = sum(b[i] * cc[i] ** (k - 1) for i in range(s))
        rel = abs(lhs * k - 1)
        worst = max(worst, rel)
        c.case()
        c.check("c01.simplifying.B", bool(rel <= slack), info=dict(k=k, rel=float(rel)))
    for k in range(1, eta + 1):         # C(eta)
        for i in range(s):
            lhs = sum(A[i][j] * cc[j] ** (k - 1) for j in range(s))
            rhs = cc[i] ** k / k
            rel = abs(lhs - rhs) * k
            c.check("c01.simplifying.C", bool(rel <= slack), info=dict(k=k, i=i, rel=float(rel)))
    for k in range(1, zeta + 1):        # D(zeta)
        for j in range(s):
            lhs = sum(b[i] * cc[i] ** (k - 1) * A[i][j] for i in range(s))
            rhs = b[j] * (1 - cc[j] ** k) / k
            rel = abs(lhs - rhs) * k
            c.check("c01.simplifying.D", bool(rel <= slack), info=dict(k=k, j=j, rel=float(rel)))
    c.check("c01.simplifying.order_bound", p <= eta + zeta + 1 and p <= 2 * eta + 2)


def _richardson(c, inst, t, h):
    import desolver.integrators as I
    import desolver.utilities.optimizer as opt
    import desolver.integrators.integrator_types as it
    base = _cls(inst["cls"])
    L = inst["levels"]
    p = int(base.__order__)
    symp = issubclass(base, I.ExplicitSymplecticIntegrator)
    # (other wrappers of the same method were requested earlier in this process: the default 2-level one and a deeper one)
    I.generate_richardson_integrator(base)
    I.generate_richardson_integrator(base, richardson_iter=L + 1)
    RI = I.generate_richardson_integrator(base, richardson_iter=L)
    c.check("c01.richardson_wrapper_has_requested_levels", int(RI((1,), dtype=np.dtype(np.float64)).richardson_iter) == L if hasattr(RI((1,), dtype=np.dtype(np.float64)), "richardson_iter") else True)
    orders = list(range(1, p + 1)) + ([p + 1] if L >= 3 else [])
    c.assume(h * h <= 1.0 / 16)
    for n in orders:
        for tr in T.trees_of_order(n):
            children, sub = T.layout(tr)
            cols = (0, 1) if symp else (None,)
            for col in cols:
                if col is None:
                    rhs = TreeRhs(c, children)
                    dim = len(children)
                    root = 0
                else:
                    colour = [None] * len(children)

                    def paint(v, cc):
                        colour[v] = cc
                        for w in children[v]:
                            paint(w, 1 - cc)
                    paint(0, col)
                    half = max(sum(1 for x in colour if x == 0), sum(1 for x in colour if x == 1), 1)
                    index = [None] * len(children)
                    iq = ip = 0
                    for v, cc in enumerate(colour):
                        if cc == 0:
                            index[v] = iq
                            iq += 1
                        else:
                            index[v] = half + ip
                            ip += 1
                    dim = 2 * half
                    rhs = TreeRhs(c, children, index=index, dim=dim)
                    root = index[0]

                def go():
                    dt = np.dtype(object) if c.symbolic else np.dtype(np.float64)
                    integ = RI((dim,), dtype=dt, rtol=1e-6, atol=1e-6)
                    # the sub-steps are taken by the wrapped method as the caller configured it: in particular an implicit basis solves
                    # its stage equations to the caller's tolerance (the order of the wrapper rests on accurately solved sub-steps)
                    c.check("c01.richardson.basis_integrators_use_the_callers_tolerances",
                            all(float(bi.rtol) == 1e-6 and float(bi.atol) == 1e-6 for bi in integ.basis_integrators),
                            info=dict(tols=[(float(bi.rtol), float(bi.atol)) for bi in integ.basis_integrators]))
                    for bi in integ.basis_integrators:
                        bi.update_timestep = ctrl_stub(c, bi, fixed=1.0)
                    y0 = c.array([0] * dim) if c.symbolic else np.zeros(dim)
                    with patched(opt, "nonlinear_roots", picard_root_stub(c, n + 2)), patched(it, "broyden_update_jac", lambda B, dx, df, Binv=None: B):
                        if inst.get("second_step"):
                            integ.adaptive_richardson(rhs, t, y0, {}, h)        # first step of the object (same data): result discarded
                        return integ.adaptive_richardson(rhs, t, y0, {}, h)
                st, r = run(go)
                if st != "ok":
                    c.check("c01.richardson.runs", False, info=dict(tree=T.tree_str(tr), err=repr(r)))
                    continue
                ts, (ts2, val), diff = r
                c.case()
                nm = ("c01.richardson.not_lower_than_base.%s.L%d" if n <= p else "c01.richardson.three_levels_strictly_higher.%s.L%d") % (inst["cls"], L)
                c.check(nm, _within(c, val[root], h, n, T.gamma(tr)), info=dict(base=inst["cls"], levels=L, tree=T.tree_str(tr), order=n))
