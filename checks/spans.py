"""Shared 'time span' scenario used by C03 (grid covers the span), C04 (fixed steps), and reused by C12/C13/C19/C20.

Real code executed symbolically: OdeSystem.__init__, integrate, dt setter, __fix_dt_dir, __alloc_space_steps,
__allocate_soln_space, __trim_soln_space, initialise_integrator, set_method, the integrators' __call__/step."""
from __future__ import annotations

import numpy as np

from .common import (FreshRhs, FreshRhsWithJac, StepCap, patched, verdict_root_stub, ctrl_stub, run, sgn, absval, maxval, flat)

EPS64 = float(np.finfo(np.float64).eps)

FAMILIES = {
    # name -> (method string, state shape, kind)
    "euler": ("Euler", (1,), "fixed"),
    "rk4": ("RK4", (1,), "fixed"),
    "midpoint": ("Midpoint", (2,), "fixed"),
    "sympl_euler": ("Symplectic Forward Euler", (2,), "fixed"),
    "abas5o6h": ("ABAS5O6H", (2,), "fixed"),
    "backward_euler": ("BackwardEuler", (1,), "implicit"),
    "implicit_midpoint": ("ImplicitMidpoint", (1,), "implicit"),
    "heun_euler": ("Adaptive Heun-Euler", (1,), "adaptive"),
    "dopri45": ("Dormand-Prince", (1,), "adaptive"),
}


def build_system(c, inst, t0, tf, dt0, dense=False, rhs=None, constants=None):
    """construct the OdeSystem of this instance; returns (system, rhs, log)"""
    import desolver as de
    method, shape, kind = FAMILIES[inst["family"]]
    y0 = c.array([c.real("y0_%d" % i) for i in range(int(np.prod(shape)))]).reshape(shape)
    if rhs is None:
        cls = FreshRhsWithJac if kind == "implicit" else FreshRhs
        rhs = cls(c, shape, mode=inst.get("rhs_mode", "fresh"))
    kw = {}
    if constants is not None:
        kw["constants"] = constants
    a = de.OdeSystem(rhs, y0=y0, t=(t0, tf), dt=dt0, dense_output=dense, **kw)
    a.method = method
    log = dict(ctrl=[], root=[], y0=y0)
    if kind == "adaptive" and not inst.get("real_controller"):
        a.integrator.update_timestep = ctrl_stub(c, a.integrator, log["ctrl"], max_redo=inst.get("max_redo", 1))
    return a, rhs, log


def stubs_for(c, inst, log):
    import desolver.utilities.optimizer as opt
    kind = FAMILIES[inst["family"]][2]
    if kind == "implicit":
        return patched(opt, "nonlinear_roots", verdict_root_stub(c, success=inst.get("root_success", "true"), log=log, diverge_at=inst.get("root_diverge_at"), congruent=bool(inst.get("root_congruent"))))
    import contextlib
    return contextlib.nullcontext()


def cap_callback(c, cap, kind):
    state = dict(n=0, increments=[])

    def cb(system):
        state["n"] += 1
        # the increment of the attempt the integrator accepted for this step (public attributes of the integrator)
        state["increments"].append((len(system.t) - 1, system.integrator.dTime, list(flat(c, system.integrator.dState))))     # copied: some integrators update dState in place
        if state["n"] > cap:
            if kind == "fixed":
                raise StepCap("more than %d steps" % cap)
            from srx import core
            if c.symbolic:
                raise core.CutPath("step_cap", "adaptive/implicit run exceeded %d steps" % cap)
            raise StepCap("more than %d steps" % cap)
    cb.state = state
    return cb


def input_assumptions(c, inst, t0, tf, dt0):
    N = inst["N"]
    c.assume(dt0 != 0)
    span = absval(c, tf - t0)
    adt = absval(c, dt0)
    c.assume(span <= N * adt)
    c.assume(adt >= 1.0 / 64)
    c.assume(span >= 1.0 / 64)
    for v in (t0, tf):
        c.assume(v <= 64)
        c.assume(v >= -64)
    c.assume(adt <= 256)
    return span, adt


def segment_checks(c, P, a, i0, t_start, target, y_start=None, regions=None):
    """grid properties of the rows recorded by one integrate() call: rows i0.. of a.t"""
    T = list(a.t)
    Y = a.y
    n = len(T)
    c.check(P + ".paired", len(T) == len(Y))
    s = sgn(c, target - t_start)
    scale = maxval(c, 1, absval(c, t_start), absval(c, target)) if c.symbolic else max(1.0, abs(float(t_start)), abs(float(target)))
    tol = 64 * EPS64 * scale
    c.check(P + ".starts_at_start", c.eq(T[i0], t_start, scale), regions=regions)
    mono = [c.lt(0, s * (T[i + 1] - T[i])) for i in range(i0, n - 1)]
    c.check(P + ".strictly_monotone_toward_target", c.all(mono), regions=regions)
    over = [c.le(0, s * (target - T[i]) + tol) for i in range(i0, n)]
    c.check(P + ".no_overshoot", c.all(over), regions=regions)
    c.check(P + ".ends_at_target", c.le(absval(c, T[-1] - target), tol), regions=regions)
    return s, tol


def status_ok(a):
    return a.integration_status == "Integration completed successfully." and bool(a.success)


def pairing_checks(c, P, a, cb, regions=None):
    """times and states stay paired: every recorded row advances time AND state by the increment (dTime, dState) of the same accepted attempt"""
    ok_t, ok_y = [], []
    for (row, dT, dY) in cb.state["increments"]:
        if row < 1 or row >= len(a.t):
            continue
        ok_t.append(c.eq(a.t[row] - a.t[row - 1], dT, 64))
        fa = flat(c, a.y[row] - a.y[row - 1])
        fb = flat(c, dY)
        ok_y.append(len(fa) == len(fb) and c.all([c.eq(u, v, 64) for u, v in zip(fa, fb)]))
    if ok_t:
        c.check(P + ".recorded_time_increment_is_the_accepted_attempts", c.all(ok_t), regions=regions)
        c.check(P + ".recorded_state_increment_is_the_accepted_attempts", c.all(ok_y), regions=regions)
