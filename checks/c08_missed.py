"""C08 - no event crossing is missed (completeness of handle_events (A) and of the recording stage of integrate (B); the root finder is C14)."""
from __future__ import annotations

from . import c07_events as C7
from . import events_common as EC

PROPERTY = "C08"
LEVEL = "other"
EXPLANATION = (
    "Assume/guarantee decomposition (see C07).  (A) REAL handle_events on a symbolic step with the root finder stub in 'exact' mode (it returns the true, strictly interior "
    "crossing of g_i = alpha_i*(y - r_i) with success): z3 decides that every such crossing in a requested direction IS in the returned list, whatever the scale alpha_i "
    "(2^-20..2^20), the direction of integration and the number of simultaneous events, unless an earlier terminal event cuts the list.  (B) REAL event section of "
    "OdeSystem.integrate with the events oracle: every detector report that is not a repeat of the same event within eps^0.7 is recorded - nothing is dropped by the "
    "true_positive filter, by the duplicate filter (two different events are never merged), or because interpolants were pruned when dense_output=False; both directions.  "
    "(C) 'the root finder finds a bracketed sign change and says so, whatever the steepness' is C14 - its known finding c14.absolute_residual_success is the reason steep "
    "events are missed end-to-end.")
ASSUMPTIONS = C7.ASSUMPTIONS + ["end-to-end completeness additionally needs C14's root-finder guarantee (known finding there: absolute residual success test)"]
BOUNDS = C7.BOUNDS
OUTSIDE = C7.OUTSIDE


def instances(tier):
    hs = [i for i in C7.handle_instances(tier, "C08") if i["mode"] == "exact"]
    return hs + C7.integrate_instances(tier, "C08")


def scenario(c, inst):
    if inst["kind"] == "handle":
        return C7.handle_scenario(c, inst, {"C08"})
    if inst["kind"] == "e2e":
        return EC.scenario_e2e(c, inst, {"C08"})
    return EC.scenario(c, inst, {"C08"})
