"""C08 - no event crossing is missed (completeness of handle_events (A) and of the recording stage of integrate (B); the root finder is C14)."""
from __future__ import annotations

from . import c07_events as C7
from . import events_common as EC

PROPERTY = "C08"
LEVEL = "other"
EXPLANATION = (
    "Assume/guarantee decomposition (see C07).  (A) REAL handle_events on a symbolic step with the root finder stub in 'exact' mode (it returns the true, strictly interior "
    "crossing of g_i = alpha_i*(y - r_i) with success): z3 decides that every such crossing in a requested direction IS in the returned list, whatever the scale alpha_i "
    "(2^-20..2^20), the direction of integration and the number of simultaneous events, unless an earlier terminal event cuts the list.  (B) REAL event section of "
    "OdeSystem.integrate with the events oracle: every detector report that is not a repeat of the same event within eps^0.7 is recorded - nothing is dropped by the "
    "true_positive filter, by the duplicate filter (two different events are never merged), or because interpolants were pruned when dense_output=False; both directions.  "
    "(C) 'the root finder finds a bracketed sign change and says so, whatever the steepness' is C14 - its known finding c14.absolute_residual_success is the reason steep "
    "events are missed end-to-end.")
ASSUMPTIONS = C7.ASSUMPTIONS + ["end-to-end completeness additionally needs C14's root-finder guarantee (known finding there: absolute residual success test)"]
BOUNDS = C7.BOUNDS
OUTSIDE = C7.OUTSIDE


FP_CHECK = "c08.fp.steep_event_bracketed_by_adjacent_floats_is_reported"


def instances(tier):
    hs = [i for i in C7.handle_instances(tier, "C08") if i["mode"] == "exact"]
    out = hs + C7.integrate_instances(tier, "C08")
    # bit-precise end of the chain: QF_FP witness (C14's lemma) -> REAL handle_events + brentsrootvec in float64
    q = tier == "quick"
    for dt in (("float16", "float32") if q else ("float16", "float32", "float64")):
        t = 60 if q else 700
        for lo, hi in ((0.5, 2.0), (4.0, 8.0), (64.0, 128.0), (-2.0, -0.5), (-8.0, -4.0), (-128.0, -64.0)):
            out.append(dict(id="fp-event-%s-x%g-%g" % (dt, lo, hi), kind="fp", dtype=dt, timeout_s=t, xlo=lo, xhi=hi,
                            budget=dict(wall_s=t + 30, max_paths=4)))
    return out


def _fp_handle_events(s, d, x0, xlo, xhi):
    """REAL handle_events (float64) on the time event g(t) = s*t - d whose sign change is bracketed by the adjacent floats x0 < x1;
    returns a record with missed=True iff some direction of integration does not report it"""
    import warnings
    import numpy as np
    import desolver.differential_system as ds
    x0 = np.float64(x0)
    x1 = np.nextafter(x0, np.float64(np.inf))
    s, d = np.float64(s), np.float64(d)

    def g(t, y, **kw):
        return s * t - d

    class Flat:
        def __call__(self, t):
            return np.zeros(1)

        def grad(self, t):
            return np.zeros(1)
    out = dict(s=float(s), d=float(d), x0=float(x0), x1=float(x1), g_x0=float(g(x0, None)), g_x1=float(g(x1, None)), runs=[])
    missed = False
    for (tp, tn) in ((xlo, xhi), (xhi, xlo)):
        with warnings.catch_warnings():
            warnings.simplefilter("ignore")
            act, roots, term, evs = ds.handle_events((Flat(), np.float64(tp), np.float64(tn)), [g], {}, np.array([0]), np.array([False]), ([False],))
        ok = len(act) == 1 and float(np.ravel(roots)[0]) in (float(x0), float(x1))
        out["runs"].append(dict(t_prev=tp, t_next=tn, reported=[float(r) for r in np.ravel(roots)]))
        missed = missed or not ok
    out["missed"] = missed
    return out


def _fp(c, inst):
    from . import c14_brent as C14
    from srx import core
    xlo, xhi = inst["xlo"], inst["xhi"]
    if c.symbolic:
        status, wit = C14._fp_query(inst["dtype"], inst.get("timeout_s", 60), xlo, xhi)
        c.note("qf_fp_result", status)
        if status == "unknown":
            raise core.BudgetHit("qf_fp_unknown")
        if status == "unsat":
            # no adjacent pair has both residuals above tol: the detector's acceptance by residual covers the format
            c.check(FP_CHECK, True)
            return
        for k, v in wit.items():
            c.assume(c.eq(c.real(k), v))
        s, x0 = float(wit["s"]), float(wit["x0"])
    else:
        s, x0 = float(c.real("s")), float(c.real("x0"))
        c.real("d")
    t = C14._fp_transport_float64(s, x0, xlo=xlo, xhi=xhi)
    if t is None:
        c.note("float64_instance", "none found near the witness")
        c.check(FP_CHECK, True)
        return
    rec = _fp_handle_events(*t, xlo, xhi)
    c.note("real_handle_events_float64", rec)
    c.check(FP_CHECK, not rec["missed"], info=dict(dtype=inst["dtype"], xrange=[xlo, xhi]))


def scenario(c, inst):
    if inst["kind"] == "fp":
        return _fp(c, inst)
    if inst["kind"] == "handle":
        return C7.handle_scenario(c, inst, {"C08"})
    if inst["kind"] == "e2e":
        return EC.scenario_e2e(c, inst, {"C08"})
    return EC.scenario(c, inst, {"C08"})
