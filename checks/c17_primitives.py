"""C17 - interval lookup and Hermite interpolation primitives are exact.

Real code executed symbolically: desolver.utilities.search_bisection, search_bisection_vec,
desolver.utilities.interpolation.CubicHermiteInterp.__call__/grad.
"""
import numpy as np

from .common import run_bounded

PROPERTY = "C17"
LEVEL = "other"
EXPLANATION = (
    "Bounded symbolic execution of the real search_bisection / search_bisection_vec on arrays whose elements and queries are "
    "real-valued solver variables (strictly increasing assumed), all lengths up to the bound; every feasible path's returned "
    "index is checked by z3 against 'first element >= query, clipped' for ALL real arrays/queries on that path (strictly more "
    "than the 9-point grid of the property text). CubicHermiteInterp is executed on a general cubic with symbolic coefficients, "
    "symbolic interval of either orientation and symbolic query point; exactness of value and gradient is a polynomial identity "
    "decided by z3 on each path.")
ASSUMPTIONS = [
    "arithmetic over the reals, not IEEE-754: 'to rounding' in the property is decided as exact equality in R",
    "array elements strictly increasing (the documented precondition); NaN/inf inputs excluded",
]
BOUNDS = {
    "quick": dict(array_length="1..6 (scalar), 1..4 (vector)", vector_queries="1..2", hermite_data_shapes="scalar, (2,), (2,2), (4,1)"),
    "thorough": dict(array_length="1..7 (scalar and vector)", vector_queries="1..3", hermite_data_shapes="scalar, (2,), (2,2), (4,1), (4,2), (3,4)"),
}
OUTSIDE = ["IEEE rounding of the Hermite basis evaluation", "arrays longer than the bound", "non-increasing arrays"]


ASSUMPTIONS = list(globals().get("ASSUMPTIONS", [])) + [
    "refilled-in-place instances: the same list / array object is searched with one strictly increasing content, overwritten element by element with another one of the "
    "same length, and searched again (both contents and both queries symbolic)",
    "results_modified_by_caller: every array the Hermite piece returned is overwritten in place before the piece is evaluated again",
]


def instances(tier):
    out = []
    nmax = 6 if tier == "quick" else 7
    for n in range(1, nmax + 1):
        for form in ("list", "array"):
            out.append(dict(id="bisect-n%d-%s" % (n, form), kind="bisect", n=n, form=form, budget=dict(wall_s=60, max_paths=500)))
    # the SAME container is searched, refilled in place with other strictly increasing values of the same length, and searched again
    # (a re-used knot buffer): the answer is for the current contents
    for n in ((3, 5) if tier == "quick" else (3, 4, 5, 6)):
        for form in ("list", "array"):
            out.append(dict(id="bisect-n%d-%s-refilled-in-place" % (n, form), kind="bisect", n=n, form=form, refill=True, budget=dict(wall_s=60, max_paths=1500)))
    vmax = 4 if tier == "quick" else 7
    mmax = 2 if tier == "quick" else 3
    for n in range(1, vmax + 1):
        for m in range(1, mmax + 1):
            if tier == "thorough" and n >= 6 and m == 3:
                b = dict(wall_s=600, max_paths=6000)
            else:
                b = dict(wall_s=120, max_paths=3000)
            out.append(dict(id="bisectvec-n%d-m%d" % (n, m), kind="bisectvec", n=n, m=m, budget=b))
    # matrix-valued data too (a leading dimension of 4 coincides with the number of Hermite basis functions)
    shapes = [(), (2,), (2, 2), (4, 1)] if tier == "quick" else [(), (2,), (2, 2), (4, 1), (4, 2), (3, 4)]
    for sh in shapes:
        for param in ("endpoints", "width"):
            out.append(dict(id="hermite-%s-%s" % ("x".join(map(str, sh)) or "scalar", param), kind="hermite", shape=list(sh), param=param,
                            budget=dict(wall_s=120, max_paths=200)))
    for kt in ("int", "int64"):
        for knots in ((0, 2), (3, -1)) if tier == "quick" else ((0, 2), (3, -1), (-4, 1), (1, 2)):
            out.append(dict(id="hermite-2-intknots-%s-%d_%d" % (kt, knots[0], knots[1]), kind="hermite", shape=[2], param="intknots", knots=list(knots), knot_type=kt,
                            budget=dict(wall_s=120, max_paths=200)))
    return out


def _spec_ok(c, arr, q, r, n):
    """r is the index of the first element >= q, clipped to n-1"""
    conds = []
    if c.symbolic and hasattr(r, "p"):
        r = int(r)      # an index that depends on symbolic data: enumerate its feasible values (forks)
    if isinstance(r, (int, np.integer)) and 0 <= int(r) <= n - 1:
        r = int(r)
        if r < n - 1:
            conds.append(c.le(q, arr[r]))
        if r > 0:
            conds.append(c.lt(arr[r - 1], q))
        return c.all(conds)
    return False


def scenario(c, inst):
    from desolver import utilities as deutil
    kind = inst["kind"]
    if kind in ("bisect", "bisectvec"):
        n = inst["n"]
        elems = [c.real("a%d" % i) for i in range(n)]
        for i in range(n - 1):
            c.assume(elems[i] < elems[i + 1])
        if kind == "bisect":
            q = c.real("q")
            arr = list(elems) if inst["form"] == "list" else c.array(elems)
            if inst.get("refill"):
                # earlier use of the container: other contents, another query
                first = [c.real("b%d" % i) for i in range(n)]
                for i in range(n - 1):
                    c.assume(first[i] < first[i + 1])
                for i in range(n):
                    arr[i] = first[i]
                run_bounded(8.0, deutil.search_bisection, arr, c.real("q_first"))
                for i in range(n):
                    arr[i] = elems[i]
            st, r = run_bounded(8.0, deutil.search_bisection, arr, q)
            if st != "ok":
                c.check("bisect.returns", False, info=repr(r) if st == "exc" else "does not terminate")
                return
            c.note("r", int(r) if isinstance(r, (int, np.integer)) else repr(r))
            c.check("bisect.first_not_smaller", _spec_ok(c, elems, q, r, n))
        else:
            m = inst["m"]
            qs = [c.real("q%d" % j) for j in range(m)]
            arr = c.array(elems)
            st, rv = run_bounded(8.0, deutil.search_bisection_vec, arr, c.array(qs))
            if st != "ok":
                c.check("bisectvec.returns", False, info=repr(rv) if st == "exc" else "does not terminate")
                return
            c.check("bisectvec.shape", tuple(np.shape(rv)) == (m,))
            rv = [int(x) for x in rv]
            c.note("r", rv)
            for j in range(m):
                c.check("bisectvec.first_not_smaller", _spec_ok(c, elems, qs[j], rv[j], n))
                rs = deutil.search_bisection(arr, qs[j])
                c.check("bisectvec.agrees_with_scalar", int(rs) == rv[j])
        return
    if kind == "hermite":
        from desolver.utilities.interpolation import CubicHermiteInterp
        shape = tuple(inst["shape"])
        size = int(np.prod(shape)) if shape else 1
        t0 = c.real("t0")
        if inst["param"] == "intknots":
            # knots given as integers (python ints / numpy int64 scalars, e.g. taken from np.arange): concrete values, the rest symbolic
            k0, k1 = inst["knots"]
            conv = {"int": int, "int64": np.int64}[inst["knot_type"]]
            c.assume(c.eq(t0, k0))
            t0, t1 = conv(k0), conv(k1)
        elif inst["param"] == "width":
            w = c.real("w")
            c.assume(w != 0)
            t1 = t0 + w
        else:
            t1 = c.real("t1")
            c.assume(t1 != t0)
        q = c.real("q")
        coef = [[c.real("c%d_%d" % (k, d)) for d in range(4)] for k in range(size)]

        def P(t):
            return [co[0] + co[1] * t + co[2] * t * t + co[3] * t * t * t for co in coef]

        def dP(t):
            return [co[1] + 2 * co[2] * t + 3 * co[3] * t * t for co in coef]

        def pack(v):
            if not shape:
                return v[0]
            return c.array(v).reshape(shape)

        data = [pack(P(t0)), pack(P(t1)), pack(dP(t0)), pack(dP(t1))]
        itp = CubicHermiteInterp(t0, t1, *data)
        if shape:
            # the caller re-uses its work arrays afterwards (in-place writes): the piece keeps the data it was built from
            for arr in data:
                arr[...] = 0 * arr + 7

        def flat(v):
            return list(np.asarray(v, dtype=object).reshape(-1)) if c.symbolic else list(np.asarray(v).reshape(-1))

        def same(name, got, want, scale):
            got = flat(got)
            if len(got) != len(want):
                c.check(name + ".shape", False)
                return
            c.check(name, c.all([c.eq(g, w_, scale) for g, w_ in zip(got, want)]))

        try:
            if c.symbolic:
                scale = 1
            else:
                scale = max(1.0, max(abs(float(x)) for co in coef for x in co)) * max(1.0, abs(float(q)), abs(float(t0)), abs(float(t1))) ** 3 * 64
            same("hermite.value_exact_on_cubics", itp(q), P(q), scale)
            same("hermite.grad_is_derivative", itp.grad(q), dP(q), scale)
            same("hermite.end_value_t0", itp(t0), P(t0), scale)
            same("hermite.end_value_t1", itp(t1), P(t1), scale)
            same("hermite.end_slope_t0", itp.grad(t0), dP(t0), scale)
            same("hermite.end_slope_t1", itp.grad(t1), dP(t1), scale)
            if shape:
                # the caller modifies IN PLACE the arrays the piece handed back (y = piece(t); y += ...): the piece must still reproduce
                # its end values, end slopes and the cubic afterwards
                for res in (itp(q), itp.grad(q), itp(t0), itp(t1), itp.grad(t0), itp.grad(t1)):
                    res[...] = 0 * res + 9
                same("hermite.results_modified_by_caller.value_exact_on_cubics", itp(q), P(q), scale)
                same("hermite.results_modified_by_caller.grad_is_derivative", itp.grad(q), dP(q), scale)
                same("hermite.results_modified_by_caller.end_value_t0", itp(t0), P(t0), scale)
                same("hermite.results_modified_by_caller.end_value_t1", itp(t1), P(t1), scale)
                same("hermite.results_modified_by_caller.end_slope_t0", itp.grad(t0), dP(t0), scale)
                same("hermite.results_modified_by_caller.end_slope_t1", itp.grad(t1), dP(t1), scale)
        except Exception as e:
            c.check("hermite.no_exception", False, info=repr(e))
