"""C10 - symplectic methods produce symplectic, time-reversible maps."""
from __future__ import annotations

from fractions import Fraction

import numpy as np

from .common import run, flat, absval, FreshRhs, patched

PROPERTY = "C10"
LEVEL = "other"
EXPLANATION = (
    "The Hamiltonian stays UNINTERPRETED.  Explicit splitting schemes: the real ExplicitSymplecticIntegrator.__call__ is executed on dual "
    "numbers (value and partial derivatives w.r.t. the initial state are symbolic polynomials); at its k-th call the right-hand side stub "
    "returns fresh values and a Jacobian with the block structure of ANY separable Hamiltonian at an arbitrary point (dq'/dp = T''_k, "
    "dp'/dq = -V''_k, fresh symmetric blocks).  Whole-step form: M^T J M - J is the zero polynomial in h, T''_k, V''_k (z3 is asked for values "
    "making an entry non-zero).  Per-stage form (every scheme): the Jacobian of the state is re-seeded with a fresh matrix G_k at each call, the "
    "real loop's update is shown to be G_{k+1} = (I + h (a_k D + b_k K) Hess_k) G_k and that factor is symplectic for every symmetric "
    "Hessian (closure of the symplectic group gives the composition).  Reversibility: with the separable structure as congruent uninterpreted "
    "functions T'(p), V'(q), step(h) followed by step(-h) returns the start state (term identity).  Kick masks: default, explicit mask given to "
    "the constructor, and OdeSystem.set_kick_vars must reach the integrator used by integrate.  Implicit symplectic classes (Gauss 4/6, implicit "
    "midpoint): b_i a_ij + b_j a_ji - b_i b_j = 0 and the symmetry condition from the class attributes (|.| <= 2^-45), R(z)R(-z) = 1 as a "
    "polynomial identity of the stability function (slack 2^-40), and agreement of the real step with R on the rotation block (shared with C11).")
ASSUMPTIONS = [
    "real arithmetic; the right-hand side is an arbitrary separable Hamiltonian vector field (fresh symbols per call with the separable Jacobian structure)",
    "closure of the symplectic group under composition (per-stage form) is the trusted mathematical base",
    "implicit classes on nonlinear Hamiltonians: the sufficient tableau condition (Sanz-Serna / Lasagni) is checked, not the nonlinear stage solve",
]
BOUNDS = {"quick": dict(dof="1 (whole-step), 1-2 (per-stage)", whole_step="SymplecticEuler, ABAs5o6H"),
          "thorough": dict(dof="1-2", whole_step="all three schemes (1 d.o.f.), SymplecticEuler and ABAs5o6H with 2 d.o.f.")}
OUTSIDE = ["bounded long-time energy error (a consequence; backward error analysis)", "IEEE rounding",
           "the WHOLE-step polynomial identity for ABAs5o6H with 2 d.o.f. and for BABs9o7H (does not finish in 20 min): these are decided per stage "
           "(every stage factor symplectic and of drift/kick form; closure under composition is the trusted mathematical base)"]


# ---------------------------------------------------------------------------------------------- dual numbers


class Dual:
    """value + gradient (list) ; works over SymReal and floats"""
    __slots__ = ("v", "g")
    __array_priority__ = 2000

    def __init__(self, v, g):
        self.v = v
        self.g = g

    @staticmethod
    def lift(x, n):
        if isinstance(x, Dual):
            return x
        return Dual(x, [0] * n)

    def _n(self):
        return len(self.g)

    def __add__(self, o):
        if isinstance(o, Dual):
            return Dual(self.v + o.v, [a + b for a, b in zip(self.g, o.g)])
        if isinstance(o, np.ndarray):
            return NotImplemented
        return Dual(self.v + o, list(self.g))

    __radd__ = __add__

    def __neg__(self):
        return Dual(-self.v, [-a for a in self.g])

    def __sub__(self, o):
        if isinstance(o, np.ndarray):
            return NotImplemented
        return self + (-o)

    def __rsub__(self, o):
        return (-self) + o

    def __mul__(self, o):
        if isinstance(o, Dual):
            return Dual(self.v * o.v, [a * o.v + self.v * b for a, b in zip(self.g, o.g)])
        if isinstance(o, np.ndarray):
            return NotImplemented
        return Dual(self.v * o, [a * o for a in self.g])

    __rmul__ = __mul__

    def __repr__(self):
        return "Dual(%r)" % (self.v,)


def _sym_block(c, name, d):
    """fresh symmetric d x d block"""
    M = [[None] * d for _ in range(d)]
    for i in range(d):
        for j in range(i, d):
            M[i][j] = M[j][i] = c.real("%s_%d%d" % (name, i, j))
    return M


class SeparableDualRhs:
    """q' = T'(p), p' = -V'(q) with arbitrary values and Hessians at every call; layout given by the kick mask (True = momentum)"""

    def __init__(self, c, kick, reseed=False):
        self.c = c
        self.kick = list(kick)
        self.n = len(kick)
        self.qi = [i for i, k in enumerate(kick) if not k]
        self.pi = [i for i, k in enumerate(kick) if k]
        self.d = len(self.qi)
        self.calls = []
        self.reseed = reseed

    def __call__(self, t, y, **kw):
        c = self.c
        k = len(self.calls)
        ys = [Dual.lift(v, self.n) for v in list(y)]
        Tpp = _sym_block(c, "T%d" % k, self.d)
        Vqq = _sym_block(c, "V%d" % k, self.d)
        vals = c.uf("f%d" % k, [], self.n, fresh=True)
        G_in = [list(v.g) for v in ys]
        if self.reseed:
            G = [[c.real("G%d_%d%d" % (k, i, j)) for j in range(self.n)] for i in range(self.n)]
        else:
            G = G_in
        out = [None] * self.n
        for a, i in enumerate(self.qi):
            g = [0] * self.n
            for b, j in enumerate(self.pi):
                g = [gg + Tpp[a][b] * G[j][m] for m, gg in enumerate(g)]
            out[i] = Dual(vals[i], g)
        for a, i in enumerate(self.pi):
            g = [0] * self.n
            for b, j in enumerate(self.qi):
                g = [gg - Vqq[a][b] * G[j][m] for m, gg in enumerate(g)]
            out[i] = Dual(vals[i], g)
        self.calls.append(dict(t=t, G_in=G_in, G=G, T=Tpp, V=Vqq))
        arr = np.empty(self.n, dtype=object)
        for i in range(self.n):
            arr[i] = out[i]
        return arr


def _J(n, kick):
    """canonical form for the layout: pairs (q_a, p_a) in order of appearance"""
    qi = [i for i, k in enumerate(kick) if not k]
    pi = [i for i, k in enumerate(kick) if k]
    J = [[0] * n for _ in range(n)]
    for a in range(len(qi)):
        J[qi[a]][pi[a]] = 1
        J[pi[a]][qi[a]] = -1
    return J


def _matmul(A, B):
    n, m, p = len(A), len(B), len(B[0])
    return [[sum((A[i][k] * B[k][j] for k in range(m)), 0) for j in range(p)] for i in range(n)]


def _T(A):
    return [list(r) for r in zip(*A)]


def _symplectic_defect(M, J):
    R = _matmul(_matmul(_T(M), J), M)
    n = len(J)
    return [R[i][j] - J[i][j] for i in range(n) for j in range(n)]


def _zero(c, x):
    if c.symbolic:
        return c.eq(x, 0)
    return bool(abs(float(x)) <= 1e-9)


def _cls(name):
    import desolver.integrators as I
    return getattr(I, name)


def instances(tier):
    quick = tier == "quick"
    b = dict(wall_s=80 if quick else 900, max_paths=20)
    out = []
    for nm in ("SymplecticEulerSolver", "ABAs5o6HSolver", "BABs9o7HSolver"):
        for dof in (1, 2):
            out.append(dict(id="per-stage-%s-dof%d" % (nm, dof), kind="stage", cls=nm, dof=dof, budget=b))
            out.append(dict(id="reversible-%s-dof%d" % (nm, dof), kind="reverse", cls=nm, dof=dof, budget=b))
        for k in ([2] if quick else [1, 2, 3]):
            out.append(dict(id="reversible-after-rhs-fault%d-%s-dof1" % (k, nm), kind="reverse", cls=nm, dof=1, fault_at=k, budget=b))
        # whole-step identity: the polynomial M^T J M - J of the 5-stage scheme with 2 d.o.f. and of the 9-stage scheme does not finish
        # within 20 minutes (measured: killed at the wall limit) - those cases are covered per stage only (see OUTSIDE)
        whole = [1] if (quick or nm == "ABAs5o6HSolver") else [1, 2]
        if nm == "BABs9o7HSolver":
            whole = []
        for dof in whole:
            out.append(dict(id="whole-step-%s-dof%d" % (nm, dof), kind="whole", cls=nm, dof=dof, budget=b))
    out.append(dict(id="mask-constructor", kind="mask_ctor", cls="SymplecticEulerSolver", budget=b))
    out.append(dict(id="mask-set_kick_vars", kind="mask_ode", cls="SymplecticEulerSolver", budget=b))
    # matrix-shaped state, one row per particle: y[i] = (q_i, p_i); the kick mask [[F, T], [F, T]] varies along the TRAILING axis
    # (whole-step identity with 2 degrees of freedom: feasible for the 2-stage scheme only, see DESIGN 3/C10; the mask plumbing is shared by the three classes)
    out.append(dict(id="mask-matrix-rows-SymplecticEulerSolver", kind="mask_matrix", cls="SymplecticEulerSolver", budget=b))
    for nm in (("SymplecticEulerSolver",) if quick else ("SymplecticEulerSolver", "ABAs5o6HSolver")):
        out.append(dict(id="mask-default-after-custom-%s" % nm, kind="mask_default_after_custom", cls=nm, budget=b))
    for nm in ("GaussLegendre4", "GaussLegendre6", "ImplicitMidpoint"):
        out.append(dict(id="tableau-%s" % nm, kind="tableau", cls=nm, budget=b))
        out.append(dict(id="rotation-step-%s" % nm, kind="rotation", cls=nm, budget=b))
    # the implicit symplectic classes are symplectic only as far as their stage equations are SOLVED: an unsolved stage system is
    # never accepted, whatever step the controller proposes next (the scenario of C02, run for these classes under C10)
    for nm in ("GaussLegendre4", "GaussLegendre6", "ImplicitMidpoint"):
        out.append(dict(id="unsolved-stages-never-accepted-%s" % nm, kind="unsolved", cls=nm, shape=[1], mode="accept", ctrl="free", budget=dict(b, max_paths=300)))
    out.append(dict(id="flags", kind="flags", budget=b))
    return out


def _mk(c, cls, n, dual=False, **kw):
    # (states of dual numbers live in object arrays in the float replay too: the integrator updates its buffers in place)
    dt = np.dtype(object) if (c.symbolic or dual) else np.dtype(np.float64)
    return cls((n,), dtype=dt, **kw)


def _state(c, n):
    arr = np.empty(n, dtype=object)
    for i in range(n):
        g = [0] * n
        g[i] = 1
        arr[i] = Dual(c.real("y%d" % i), g)
    return arr


def _grad_matrix(y1):
    return [list(v.g) for v in y1]


def scenario(c, inst):
    kind = inst["kind"]
    if kind in ("stage", "whole"):
        cls = _cls(inst["cls"])
        d = inst["dof"]
        n = 2 * d
        kick = [False] * d + [True] * d          # default mask: latter half are momenta
        t, h = c.real("t"), c.real("h")
        c.assume(h != 0)
        st, integ = run(_mk, c, cls, n, True)
        if st != "ok":
            c.check("c10.constructs", False, info=repr(integ))
            return
        c.check("c10.default_mask_is_latter_half", [bool(x) for x in np.asarray(integ.staggered_mask).reshape(-1)] == kick)
        rhs = SeparableDualRhs(c, kick, reseed=(kind == "stage"))
        y0 = _state(c, n)
        st, r = run(integ, rhs, t, y0, {}, h)
        if st != "ok":
            c.check("c10.step_runs_on_dual_numbers", False, info=repr(r))
            return
        new_h, (dT, dY) = r
        y1 = [Dual.lift(a, n) + Dual.lift(b, n) for a, b in zip(list(y0), list(dY))]
        J = _J(n, kick)
        A = np.asarray(cls.tableau_intermediate, dtype=np.float64)
        c.case()
        if kind == "whole":
            M = _grad_matrix(y1)
            defect = _symplectic_defect(M, J)
            c.check("c10.whole_step_map_is_symplectic", c.all([_zero(c, x) for x in defect]), info=dict(cls=inst["cls"], dof=d))
            return
        # per-stage form
        s = A.shape[0]
        stage_calls = rhs.calls[:s]
        D = [[(0 if kick[i] else 1) if i == j else 0 for j in range(n)] for i in range(n)]
        K = [[(1 if kick[i] else 0) if i == j else 0 for j in range(n)] for i in range(n)]
        for k in range(s):
            call = stage_calls[k]
            a_k, b_k = float(A[k, 1]), float(A[k, 2])
            # Hessian-structured Jacobian of f at this call
            H = [[0] * n for _ in range(n)]
            for aa, i in enumerate(rhs.qi):
                for bb, j in enumerate(rhs.pi):
                    H[i][j] = call["T"][aa][bb]
            for aa, i in enumerate(rhs.pi):
                for bb, j in enumerate(rhs.qi):
                    H[i][j] = -call["V"][aa][bb]
            F = [[(1 if i == j else 0) + h * (a_k * D[i][i] + b_k * K[i][i]) * H[i][j] for j in range(n)] for i in range(n)]
            c.check("c10.stage_factor_is_symplectic", c.all([_zero(c, x) for x in _symplectic_defect(F, J)]), info=dict(cls=inst["cls"], stage=k, a=a_k, b=b_k))
            # the real loop's update between consecutive calls: G_in(k+1) - G_in(k) = h (a_k D + b_k K) H_k G_k
            nxt = stage_calls[k + 1]["G_in"] if k + 1 < s else _grad_matrix(y1)
            want = _matmul([[h * (a_k * D[i][i] + b_k * K[i][i]) * H[i][j] for j in range(n)] for i in range(n)], call["G"])
            ok = []
            for i in range(n):
                for j in range(n):
                    ok.append(_zero(c, (nxt[i][j] - call["G_in"][i][j]) - want[i][j]))
            c.check("c10.stage_update_has_drift_kick_form", c.all(ok), info=dict(cls=inst["cls"], stage=k))
        c.check("c10.coefficients_sum_to_one", c.all([c.le(absval(c, float(np.sum(A[:, 1])) - 1 + 0 * h), 2.0 ** -40), c.le(absval(c, float(np.sum(A[:, 2])) - 1 + 0 * h), 2.0 ** -40)]))
        return
    if kind == "reverse":
        _reverse(c, inst)
        return
    if kind in ("mask_ctor", "mask_ode"):
        _masks(c, inst)
        return
    if kind == "unsolved":
        from . import c02_step as C02
        return C02.scenario(c, inst)
    if kind == "mask_matrix":
        _mask_matrix(c, inst)
        return
    if kind == "mask_default_after_custom":
        _mask_default_after_custom(c, inst)
        return
    if kind == "tableau":
        _tableau(c, inst)
        return
    if kind == "rotation":
        from . import c11_astab as C11
        d = C11._data(inst["cls"])
        s = d["s"]
        C11._scn_step(c, dict(inst, kind="step", system="block", shape=[2], steps=1, by_solver=s <= 1), d)
        return
    if kind == "flags":
        import desolver.integrators as I
        flagged = sorted(cls.__name__ for cls in list(I.explicit_methods()) + list(I.implicit_methods()) if getattr(cls, "symplectic", False))
        c.case()
        c.check("c10.symplectic_flag_set_exactly_on_the_checked_classes",
                flagged == sorted(["SymplecticEulerSolver", "ABAs5o6HSolver", "BABs9o7HSolver", "GaussLegendre4", "GaussLegendre6", "ImplicitMidpoint"]), info=flagged)
        return
    raise ValueError(kind)


class SeparableUf:
    """q' = T'(p), p' = -V'(q): congruent uninterpreted functions of the momenta resp. positions only"""

    def __init__(self, c, kick):
        self.c = c
        self.kick = list(kick)
        self.qi = [i for i, k in enumerate(kick) if not k]
        self.pi = [i for i, k in enumerate(kick) if k]

    def __call__(self, t, y, **kw):
        c = self.c
        ys = list(y)
        tq = c.uf("Tp", [ys[i] for i in self.pi], len(self.qi))
        vp = c.uf("Vq", [ys[i] for i in self.qi], len(self.pi))
        out = [None] * len(ys)
        for a, i in enumerate(self.qi):
            out[i] = tq[a]
        for a, i in enumerate(self.pi):
            out[i] = -vp[a]
        return c.array(out)


class RhsFault(Exception):
    pass


def _reverse(c, inst):
    """step(h) then step(-h) returns the start - on ONE integrator object, twice in a row from two different states (the second
    round trip starts at the time the first one ended: cached slopes of the first must not leak into it), and on fresh objects"""
    if c.symbolic:
        c.ackermann = inst.get("ackermann", True)    # full congruence: a counterexample must be realisable by an actual function T', V'
    cls = _cls(inst["cls"])
    d = inst["dof"]
    n = 2 * d
    kick = [False] * d + [True] * d
    t, h = c.real("t"), c.real("h")
    c.assume(h != 0)
    rhs = SeparableUf(c, kick)
    shared = _mk(c, cls, n)
    if inst.get("fault_at"):
        # history: a step on the shared object was abandoned because the user's rhs raised at its k-th evaluation
        calls = [0]

        def faulty(tt, yy, **kw):
            calls[0] += 1
            if calls[0] == inst["fault_at"]:
                raise RhsFault("rhs fault at evaluation %d" % calls[0])
            return rhs(tt, yy, **kw)
        w0 = c.array([c.real("w%d" % i) for i in range(n)])
        st, r = run(shared, faulty, t, w0, {}, h)
        if not (st == "exc" and isinstance(r, RhsFault)):
            c.check("c10.rhs_exception_propagates", False, info=repr(r)[:200])
            return
    for trip, tag in enumerate(("y", "z")):
        y0 = c.array([c.real("%s%d" % (tag, i)) for i in range(n)])
        for obj_mode in ("shared", "fresh"):
            fwd = shared if obj_mode == "shared" else _mk(c, cls, n)
            st, r = run(fwd, rhs, t, y0, {}, h)
            if st != "ok":
                c.check("c10.step_runs", False, info=repr(r))
                return
            _, (dT, dY) = r
            y1 = y0 + dY
            dY = list(flat(c, dY))          # copied: the integrator updates its dState array in place on the next call
            bwd = shared if obj_mode == "shared" else _mk(c, cls, n)
            st, r = run(bwd, rhs, t + dT, y1, {}, -h)
            if st != "ok":
                c.check("c10.step_runs", False, info=repr(r))
                return
            _, (dT2, dY2) = r
            y2 = y1 + dY2
            c.case()
            scale = 1 if c.symbolic else 64 * max(1.0, float(np.max(np.abs(np.asarray(y1, dtype=float)))))
            c.check("c10.step_h_then_minus_h_returns_start", c.all([c.eq(u, v, scale) for u, v in zip(flat(c, y2), flat(c, y0))]),
                    info=dict(cls=inst["cls"], dof=d, round_trip=trip, integrator=obj_mode))
            c.check("c10.reverse_time_returns", c.eq(t + dT + dT2, t))
            if obj_mode == "shared":
                ref = _mk(c, cls, n)
                st, r = run(ref, rhs, t, y0, {}, h)
                if st == "ok":
                    c.check("c10.step_map_does_not_depend_on_integrator_history", c.all([c.eq(u, v, scale) for u, v in zip(flat(c, r[1][1]), flat(c, dY))]),
                            info=dict(cls=inst["cls"], round_trip=trip))


def _mask_matrix(c, inst):
    """state of shape (2, 2), rows (q_i, p_i), user mask [[F, T], [F, T]] handed to the constructor: one step is symplectic w.r.t. the
    pairing (q_i, p_i) - every stage advances either the positions or the momenta, never both"""
    cls = _cls(inst["cls"])
    shape = (2, 2)
    kick2 = np.array([[False, True], [False, True]])
    kick = [bool(x) for x in kick2.reshape(-1)]            # flat (C order) layout: q0, p0, q1, p1
    n = 4
    t, h = c.real("t"), c.real("h")
    c.assume(h != 0)
    dt_ = np.dtype(object)
    st, integ = run(lambda: cls(shape, dtype=dt_, staggered_mask=kick2))
    c.case()
    c.check("c10.mask.constructor_accepts_a_matrix_mask", st == "ok", info=repr(integ)[:200])
    if st != "ok":
        return
    flat_rhs = SeparableDualRhs(c, kick)

    def rhs(t_, y_, **kw):
        return flat_rhs(t_, np.asarray(y_, dtype=object).reshape(-1), **kw).reshape(shape)
    y0 = _state(c, n).reshape(shape)
    st, r = run(integ, rhs, t, y0, {}, h)
    if st != "ok":
        c.check("c10.mask.step_runs", False, info=repr(r))
        return
    _, (dT, dY) = r
    y1 = [Dual.lift(a_, n) + Dual.lift(b_, n) for a_, b_ in zip(list(np.asarray(y0, dtype=object).reshape(-1)), list(np.asarray(dY, dtype=object).reshape(-1)))]
    defect = _symplectic_defect(_grad_matrix(y1), _J(n, kick))
    c.check("c10.mask.step_with_matrix_mask_is_symplectic", c.all([_zero(c, x) for x in defect]))


def _mask_default_after_custom(c, inst):
    """another integrator of the same state shape was built with an interleaved user mask first (directly and through
    OdeSystem.set_kick_vars): a default-mask integrator created afterwards must still split [q0, q1 | p0, p1]"""
    import desolver as de
    cls = _cls(inst["cls"])
    n = 4
    custom = [False, True, False, True]
    default = [False, False, True, True]
    t, h = c.real("t"), c.real("h")
    c.assume(h != 0)
    st, other = run(_mk, c, cls, n, staggered_mask=np.array(custom))
    c.check("c10.mask.constructor_accepts_a_mask", st == "ok", info=repr(other)[:200])

    def rhs0(t_, y_, **kw):
        return 0 * y_
    a = de.OdeSystem(rhs0, y0=c.array([c.real("a%d" % i) for i in range(n)]), t=(0, 1), dt=0.5)
    a.method = cls
    run(a.set_kick_vars, np.array(custom))
    st, integ = run(_mk, c, cls, n, True)
    if st != "ok":
        c.check("c10.mask.default_constructs", False, info=repr(integ)[:200])
        return
    c.case()
    got = [bool(x) for x in np.asarray(integ.staggered_mask).reshape(-1)]
    c.check("c10.mask.default_mask_is_second_half_whatever_was_built_before", got == default, info=dict(got=got, want=default))
    if inst["cls"] == "SymplecticEulerSolver":      # (the whole-step identity of the higher-order schemes in 4 variables is out of reach)
        rhs = SeparableDualRhs(c, default)
        y0 = _state(c, n)
        st, r = run(integ, rhs, t, y0, {}, h)
        if st != "ok":
            c.check("c10.mask.step_runs", False, info=repr(r))
            return
        _, (dT, dY) = r
        y1 = [Dual.lift(a_, n) + Dual.lift(b_, n) for a_, b_ in zip(list(y0), list(dY))]
        defect = _symplectic_defect(_grad_matrix(y1), _J(n, default))
        c.check("c10.mask.default_step_after_custom_mask_is_symplectic", c.all([_zero(c, x) for x in defect]))
    # and the earlier integrator keeps its own mask
    got_o = [bool(x) for x in np.asarray(other.staggered_mask).reshape(-1)] if other is not None and hasattr(other, "staggered_mask") else None
    c.check("c10.mask.custom_mask_integrator_unchanged", got_o == custom, info=dict(got=got_o))


def _masks(c, inst):
    cls = _cls(inst["cls"])
    n = 2
    kick = [True, False]            # the FIRST component is the momentum: not the default layout
    t, h = c.real("t"), c.real("h")
    c.assume(h != 0)
    if inst["kind"] == "mask_ctor":
        st, integ = run(_mk, c, cls, n, True, staggered_mask=np.array(kick))
        c.case()
        c.check("c10.mask.constructor_accepts_a_mask", st == "ok", info=repr(integ)[:200])
        if st != "ok":
            return
    else:
        import desolver as de

        def rhs0(t_, y_, **kw):
            return 0 * y_
        y00 = c.array([c.real("a0"), c.real("a1")])
        if not c.symbolic:
            y00 = np.array([float(v) for v in y00], dtype=object)      # dual numbers need object buffers in the float replay too
        a = de.OdeSystem(rhs0, y0=y00, t=(0, 1), dt=0.5)
        a.method = "Symplectic Forward Euler"
        st, r = run(a.set_kick_vars, np.array(kick))
        c.case()
        c.check("c10.mask.set_kick_vars_runs", st == "ok", info=repr(r)[:200])
        if st != "ok":
            return
        integ = a.integrator
        got = [bool(x) for x in np.asarray(integ.staggered_mask).reshape(-1)]
        c.check("c10.mask.set_kick_vars_reaches_the_integrator", got == kick, info=dict(got=got, want=kick))
        if got != kick:
            return
    rhs = SeparableDualRhs(c, kick)
    y0 = _state(c, n)
    st, r = run(integ, rhs, t, y0, {}, h)
    if st != "ok":
        c.check("c10.mask.step_runs", False, info=repr(r))
        return
    _, (dT, dY) = r
    y1 = [Dual.lift(a_, n) + Dual.lift(b_, n) for a_, b_ in zip(list(y0), list(dY))]
    defect = _symplectic_defect(_grad_matrix(y1), _J(n, kick))
    c.check("c10.mask.step_with_custom_mask_is_symplectic", c.all([_zero(c, x) for x in defect]))


def _tableau(c, inst):
    from . import c11_astab as C11
    cls = _cls(inst["cls"])
    Tb = np.asarray(cls.tableau_intermediate, dtype=np.float64)
    A = [[Fraction(float(x)) for x in row[1:]] for row in Tb]
    b = [Fraction(float(x)) for x in np.asarray(cls.tableau_final, dtype=np.float64)[0, 1:]]
    s = len(b)
    tol = Fraction(1, 2 ** 45)
    c.case()
    worst = max(abs(b[i] * A[i][j] + b[j] * A[j][i] - b[i] * b[j]) for i in range(s) for j in range(s))
    c.check("c10.tableau.symplecticity_condition", bool(worst <= tol), info=dict(cls=inst["cls"], worst=float(worst)))
    worst2 = max(abs(A[s - 1 - i][s - 1 - j] + A[i][j] - b[j]) for i in range(s) for j in range(s))
    c.check("c10.tableau.symmetry_condition", bool(worst2 <= tol), info=dict(worst=float(worst2)))
    d = C11._data(inst["cls"])
    P, Q = d["P"], d["Q"]

    def conv(p, q):
        out = [Fraction(0)] * (len(p) + len(q) - 1)
        for i, a_ in enumerate(p):
            for j, b_ in enumerate(q):
                out[i + j] += Fraction(a_) * Fraction(b_)
        return out

    def refl(p):
        return [Fraction(x) * (-1) ** k for k, x in enumerate(p)]
    lhs = conv(P, refl(P))
    rhs = conv(Q, refl(Q))
    m = max(len(lhs), len(rhs))
    lhs += [Fraction(0)] * (m - len(lhs))
    rhs += [Fraction(0)] * (m - len(rhs))
    worst3 = max(abs(u - v) for u, v in zip(lhs, rhs))
    c.check("c10.tableau.R(z)R(-z)_equals_one", bool(worst3 <= Fraction(1, 2 ** 40)), info=dict(worst=float(worst3)))
