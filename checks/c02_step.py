"""C02 - one step equals the Runge-Kutta update defined by the method's coefficients."""
from __future__ import annotations

import numpy as np

from .common import absval, maxval, FreshRhs, FreshRhsWithJac, patched, verdict_root_stub, ctrl_stub, run, flat

PROPERTY = "C02"
LEVEL = "other"
EXPLANATION = (
    "Every shipped Runge-Kutta / splitting class is instantiated and its real __call__ (hence step, compute_step, "
    "algebraic_system, get_error_estimate) executed on symbolic (t, h != 0 of either sign, y) with a right-hand side that returns "
    "fresh symbols K_i at its i-th call and records its arguments.  Obligations, one small query per right-hand-side call: the "
    "for explicit classes the right-hand side is a congruent uninterpreted function and the oracle evaluates it itself: the stored stage slope K_i equals "
    "f(t + c_i h, y + h*sum_j a_ij K_j) with c, A read from the class attributes (independent of how many evaluations the implementation makes - a stale cached "
    "slope is a different symbol), the returned increment is h*sum_i b_i K_i, dTime is the attempted step; histories: two consecutive calls, and a call whose first "
    "trial is rejected and whose retry is interrupted by an injected fault at several positions, followed by a repeated call.  "
    "Splitting schemes: call k is made at (t + h*sum_{j<k} a_j, y + dState_k) with drift components advanced by a_j and kick "
    "components by b_j.  Implicit classes: the real algebraic_system(K) equals K - f(t + c h, y + h A K) componentwise for symbolic K; "
    "with the verdict_root stub the returned increment is h*sum b_i K_i of the root handed back, and on every path on which "
    "__call__ returns normally the last stage solve had success and prec < tol, otherwise FailedToMeetTolerances is raised.")
ASSUMPTIONS = [
    "real arithmetic over the exact rational value of every float64 coefficient ('to rounding' = exact over R)",
    "rhs = arbitrary function (fresh symbols per call); optimizer.nonlinear_roots replaced by the verdict_root contract stub "
    "(arbitrary root, arbitrary success, arbitrary prec >= 0; at most 2 failing solves on forking paths, plus the all-fail path)",
    "embedded pairs: integrator.update_timestep replaced by the ctrl contract stub (C05 ties its constants to the real controller)",
]
BOUNDS = {"quick": dict(shapes=["(1,)", "(2,2) / (2,) for splitting"], consecutive_calls=2),
          "thorough": dict(shapes=["(1,)", "(3,)", "(2,2)", "(4,) for splitting"], consecutive_calls=2)}
OUTSIDE = ["float32/float64/longdouble rounding and dtype preservation", "convergence of MINPACK itself (C15, not applicable)"]


def _classes():
    import desolver.integrators as I
    ex = [cls for cls in I.explicit_methods()]
    im = [cls for cls in I.implicit_methods()]
    return ex, im


def instances(tier):
    import desolver.integrators as I
    ex, im = _classes()
    out = []
    shapes = [(1,), (2, 2)] if tier == "quick" else [(1,), (3,), (2, 2)]
    sshapes = [(2,), (2, 2)] if tier == "quick" else [(2,), (4,), (2, 2)]
    b = dict(wall_s=60 if tier == "quick" else 300, max_paths=300)
    for cls in ex:
        symp = issubclass(cls, I.ExplicitSymplecticIntegrator)
        for sh in (sshapes if symp else shapes):
            if tier == "quick" and cls.__name__ in ("RK1412Solver", "RK108Solver") and sh != (1,):
                continue
            out.append(dict(id="%s-%s" % (cls.__name__, "x".join(map(str, sh))), cls=cls.__name__, shape=list(sh),
                            mode="splitting" if symp else "explicit", budget=b))
            if symp and sh == (2,):
                for off in ([1] if tier == "quick" else [0, 1, 2]):
                    out.append(dict(id="%s-2-nonfinite+%d" % (cls.__name__, off), cls=cls.__name__, shape=[2], mode="splitting_nonfinite", fault_offset=off, budget=b))
            if not symp and sh == (1,) and cls.__name__ not in ("RK1412Solver", "RK108Solver"):
                stg = int(np.asarray(cls.tableau_intermediate).shape[0])
                for off in sorted(set([0, 1, stg, stg + 2, 2 * stg + 1])):
                    if quick_skip(tier, cls.__name__, off, stg):
                        continue
                    out.append(dict(id="%s-1-fault+%d" % (cls.__name__, off), cls=cls.__name__, shape=[1], mode="explicit_fault", fault_offset=off, budget=b))
                if tier != "quick" or cls.__name__ in ("RK45CKSolver", "DOPRI45", "RK4Solver"):
                    out.append(dict(id="%s-1-rhs-reuses-its-output-buffer" % cls.__name__, cls=cls.__name__, shape=[1], mode="explicit", rhs_reuses_buffer=True, budget=b))
                for off in ([1] if tier == "quick" else sorted(set([0, 1, stg - 1, stg]))):
                    out.append(dict(id="%s-1-nonfinite+%d" % (cls.__name__, off), cls=cls.__name__, shape=[1], mode="explicit_nonfinite", fault_offset=off, budget=b))
    # bit-precise corner (QF_FP witness -> real float64 step): ill-scaled state, the increment must not inherit the rounding of the state
    for nm in (("EulerSolver", "RK4Solver", "RK45CKSolver") if tier == "quick" else ("EulerSolver", "HeunsSolver", "RK4Solver", "RK45CKSolver", "RK8713MSolver", "DOPRI45")):
        for sign in (1, -1):
            out.append(dict(id="fp-increment-%s-%s" % (nm, "pos" if sign > 0 else "neg"), cls=nm, shape=[2], mode="fp_increment", sign=sign,
                            budget=dict(wall_s=90, max_paths=4)))
    for cls in im:
        for sh in ([(1,)] if tier == "quick" else [(1,), (2,)]):
            if cls.__name__ == "RadauIIA19" and sh != (1,):
                continue
            tag = "x".join(map(str, sh))
            out.append(dict(id="%s-%s-residual" % (cls.__name__, tag), cls=cls.__name__, shape=list(sh), mode="residual", budget=b))
            out.append(dict(id="%s-%s-accept" % (cls.__name__, tag), cls=cls.__name__, shape=list(sh), mode="accept", budget=b))
        out.append(dict(id="%s-1-allfail" % cls.__name__, cls=cls.__name__, shape=[1], mode="allfail", budget=b))
        out.append(dict(id="%s-1-accept-anyctrl" % cls.__name__, cls=cls.__name__, shape=[1], mode="accept", ctrl="free", budget=b))
        if tier != "quick" or cls.__name__ in ("BackwardEuler", "GaussLegendre4", "RadauIIA5", "LobattoIIIC4", "CrankNicolson"):
            # a second call of the same object from a state of another magnitude: its stage equations are solved to ITS tolerance
            out.append(dict(id="%s-1-accept-second-call-other-scale" % cls.__name__, cls=cls.__name__, shape=[1], mode="accept", second_call=True, max_fail=1, budget=b))
    return out


def quick_skip(tier, name, off, stg):
    if tier != "quick":
        return False
    return name not in ("RK45CKSolver", "DOPRI45", "HeunEulerSolver", "RK4Solver", "EulerSolver") or off not in (1, stg + 2)


def _get_cls(name):
    import desolver.integrators as I
    return getattr(I, name)


def _mk(c, cls, shape):
    dt = np.dtype(object) if c.symbolic else np.dtype(np.float64)
    return cls(tuple(shape), dtype=dt, rtol=1e-6, atol=1e-6)


def _eqv(c, got, want, scale=1):
    g, w = flat(c, got), flat(c, want)
    if len(g) != len(w):
        return False
    return c.all([c.eq(a, b, scale) for a, b in zip(g, w)])


def _fp_cancellation_witness(sign, timeout_s=60):
    """float64 (y, d) with |y| in (1, 1e12), |d| in (1e-9, 1): fl(fl(y + d) - y) != d   (forming the end state and subtracting the start
    state back loses the low bits of the increment)"""
    import z3
    F = z3.Float64()
    rm = z3.RNE()
    y, d = z3.FP("y", F), z3.FP("d", F)
    sol = z3.SolverFor("QF_FP")
    sol.set("timeout", int(timeout_s * 1000))
    ay, ad = z3.fpAbs(y), z3.fpAbs(d)
    sol.add(z3.fpGT(ay, z3.FPVal(1.0, F)), z3.fpLT(ay, z3.FPVal(1e12, F)), z3.fpGT(ad, z3.FPVal(1e-9, F)), z3.fpLT(ad, z3.FPVal(1.0, F)))
    sol.add(z3.fpGT(y, z3.FPVal(0.0, F)) if sign > 0 else z3.fpLT(y, z3.FPVal(0.0, F)))
    sol.add(z3.Not(z3.fpEQ(z3.fpSub(rm, z3.fpAdd(rm, y, d), y), d)))
    r = sol.check()
    if r != z3.sat:
        return str(r), None

    def val(x):
        bits = sol.model().eval(z3.fpToIEEEBV(x), model_completion=True).as_long()
        return float(np.array([bits], dtype=np.uint64).view(np.float64)[0])
    return "sat", (val(y), val(d))


def _fp_increment(c, inst):
    """bit-precise corner of 'the increment equals h*sum(b_i k_i) to rounding': the REAL float64 step on an ill-scaled state (solver
    witness), constant slope d (h = 1): the returned increment must be the weighted sum the code itself formed, to a few ulps of the
    INCREMENT (not of the state)"""
    from srx import core
    if c.symbolic:
        status, wit = _fp_cancellation_witness(inst["sign"])
        c.note("qf_fp_result", status)
        if status == "unknown":
            raise core.BudgetHit("qf_fp_unknown")
        if status == "unsat":
            c.check("c02.fp.increment_is_weighted_sum_to_rounding_of_the_increment", True)
            return
        from fractions import Fraction
        for k, v in zip(("y", "d"), wit):
            c.assume(c.eq(c.real(k), Fraction(v)))
        y, d = wit
    else:
        y, d = float(c.real("y")), float(c.real("d"))
    cls = _get_cls(inst["cls"])
    integ = cls((2,), dtype=np.dtype(np.float64), rtol=1e-6, atol=1e-6)
    if getattr(integ, "is_adaptive", False):
        integ.update_timestep = lambda *a, **k: (integ.solver_dict["timestep"], False)
    slope = np.array([d, -0.5 * d])

    def rhs(t, yy, **kw):
        return slope.copy()
    y0 = np.array([y, 1.0])
    _, (dT, dY) = integ(rhs, 0.0, y0, {}, 1.0)
    b = np.asarray(cls.tableau_final, dtype=np.float64)[0, 1:]
    want = 1.0 * np.sum(integ.stage_values * b, axis=-1)
    ulp = np.spacing(np.abs(want))
    rec = dict(cls=inst["cls"], y=y, d=d, dY=[float(v) for v in dY], weighted_sum=[float(v) for v in want], ulps_off=[float(abs(a_ - b_) / u) for a_, b_, u in zip(dY, want, ulp)])
    c.note("real_code_float64", rec)
    c.check("c02.fp.increment_is_weighted_sum_to_rounding_of_the_increment", bool(np.all(np.abs(dY - want) <= 4 * ulp)), info=rec)


def scenario(c, inst):
    if inst["mode"] == "fp_increment":
        return _fp_increment(c, inst)
    cls = _get_cls(inst["cls"])
    shape = tuple(inst["shape"])
    n = int(np.prod(shape))
    mode = inst["mode"]
    t = c.real("t")
    h = c.real("h")
    c.assume(h != 0)
    if not c.symbolic:
        pass
    y = c.array([c.real("y%d" % i) for i in range(n)]).reshape(shape)
    st, integ = run(_mk, c, cls, shape)
    if st == "exc":
        c.check("c02.constructs", False, info=repr(integ))
        return
    A = np.asarray(cls.tableau_intermediate, dtype=np.float64)
    scale = 1
    if not c.symbolic:
        scale = 64 * max(1.0, abs(float(h))) * max(1.0, float(np.max(np.abs(A))))
    if mode in ("explicit", "explicit_fault", "explicit_nonfinite"):
        # congruent uninterpreted rhs: the oracle evaluates f itself at the defining stage points, so the check does not depend on
        # how many evaluations the implementation makes or which cached slopes it legitimately reuses - a stale slope is a different symbol
        if c.symbolic:
            c.ackermann = False
        B = np.asarray(cls.tableau_final, dtype=np.float64)
        s = A.shape[0]
        rhs = FreshRhs(c, shape, name="f", mode="uf")
        rhs.reuse_buffer = bool(inst.get("rhs_reuses_buffer"))      # a legitimate rhs program: np.matmul(A, y, out=self.out); return self.out
        probe = FreshRhs(c, shape, name="f", mode="uf")
        log = []
        if integ.is_adaptive:
            # explicit_fault: the first trial of the second call is rejected, the retry is interrupted by a fault, the call is repeated
            integ.update_timestep = ctrl_stub(c, integ, log, max_redo=(1 if mode == "explicit_fault" else 0))

        def formula_checks(tag, tt, yy, hh, dT, dY, consts={}):
            K = [integ.stage_values[..., i] for i in range(s)]
            for i in range(s):
                want_y = yy
                for j in range(s):
                    if A[i, 1 + j] != 0.0:
                        want_y = want_y + hh * float(A[i, 1 + j]) * K[j]
                c.check("c02.stage_slope_is_f_at_stage_point", _eqv(c, K[i], probe(tt + float(A[i, 0]) * hh, want_y, **consts), scale), info=dict(stage=i, call=tag))
            want_dY = 0 * yy
            for i in range(s):
                if B[0, 1 + i] != 0.0:
                    want_dY = want_dY + hh * float(B[0, 1 + i]) * K[i]
            c.check("c02.increment_is_weighted_sum", _eqv(c, dY, want_dY, scale), info=dict(call=tag))

        tt, yy = t, y
        if mode == "explicit_nonfinite":
            # an attempt during which the rhs returned NaN (it left its domain: no exception) is rejected / abandoned; the next attempt
            # from the same finite (t, y) on the same object must again be the Runge-Kutta update - nothing of the NaN attempt may leak in
            rhs.nan_at = inst["fault_offset"]
            if integ.is_adaptive:
                seen = []

                def forced(ignore_custom_adaptation=False):
                    seen.append(integ.solver_dict["timestep"])
                    if len(seen) == 1:
                        return 0.5 * integ.solver_dict["timestep"], True      # what the real controller does on a NaN estimate: reject
                    return integ.solver_dict["timestep"], False
                integ.update_timestep = forced
                st, r = run(integ, rhs, tt, yy, {}, h)
                if st != "ok":
                    c.check("c02.nonfinite.retry_returns", False, info=repr(r))
                    return
                new_h, (dT, dY) = r
                c.check("c02.nonfinite.retry_is_half_step", c.eq(dT, 0.5 * h))
                formula_checks("retry after a NaN attempt", tt, yy, dT, dT, dY)
            else:
                run(integ, rhs, tt, yy, {}, h)
            st, r = run(integ, rhs, tt, yy, {}, h)
            if st != "ok":
                c.check("c02.nonfinite.next_call_returns", False, info=repr(r))
                return
            new_h, (dT, dY) = r
            formula_checks("call after a NaN attempt", tt, yy, dT, dT, dY)
            return
        st, r = run(integ, rhs, tt, yy, {}, h)
        if st != "ok":
            c.check("c02.call0.no_exception", False, info=repr(r))
            return
        new_h, (dT, dY) = r
        c.check("c02.dTime_is_attempted_step", c.eq(dT, h) if not log else c.eq(dT, log[-1]["dT"]))
        formula_checks("first", tt, yy, dT, dT, dY)
        if not integ.is_adaptive:
            c.check("c02.fixed_step_returns_h", c.eq(new_h, h))
        tt, yy = tt + dT, yy + dY
        if mode == "explicit_fault":
            rhs.fault_at = len(rhs.calls) + inst["fault_offset"]
            st, r = run(integ, rhs, tt, yy, {}, h)
            fired = len(rhs.calls) > rhs.fault_at
            rhs.fault_at = None
            c.note("fault_fired", fired)
            if st == "ok":
                new_h, (dT, dY) = r
                formula_checks("second(no fault reached)", tt, yy, dT, dT, dY)
                tt, yy = tt + dT, yy + dY
        n_log = len(log)
        # the equation changes between the calls (a parameter in `constants`): the step is the RK update of the NEW equation
        consts = {"s": c.real("s_after")} if mode == "explicit" else {}
        st, r = run(integ, rhs, tt, yy, consts, h)
        if st != "ok":
            c.check("c02.call_after.no_exception", False, info=repr(r))
            return
        new_h, (dT, dY) = r
        formula_checks("after", tt, yy, dT, dT, dY, consts)
        c.check("c02.dTime_is_attempted_step", c.eq(dT, h) if len(log) == n_log else c.eq(dT, log[-1]["dT"]))
        return
    if mode in ("splitting", "splitting_nonfinite"):
        rhs = FreshRhs(c, shape)
        if mode == "splitting_nonfinite":
            # history: a step on this object during which the rhs returned NaN (left its domain); its result is discarded
            rhs.nan_at = inst["fault_offset"]
            run(integ, rhs, t, y, {}, h)
        s = A.shape[0]
        kick = np.zeros(shape)
        kick[np.arange(shape[0] // 2, shape[0])] = 1.0
        drift = 1.0 - kick
        tt, yy = t, y
        for rep in range(2):
            n0 = len(rhs.calls)
            st, r = run(integ, rhs, tt, yy, {}, h)
            if st == "exc":
                c.check("c02.call%d.no_exception" % rep, False, info=repr(r))
                return
            new_h, (dT, dY) = r
            calls = rhs.calls[n0:]
            vals = rhs.values[n0:]
            extra = len(calls) - s
            c.check("c02.split.number_of_rhs_calls", 0 <= extra <= 2, info=dict(got=len(calls), stages=s))
            if not (0 <= extra <= 2):
                return
            acc = 0 * yy
            tcur = tt
            for k in range(s):
                tk, yk = calls[k]
                c.check("c02.split.stage_time", c.eq(tk, tcur, scale), info=dict(stage=k))
                c.check("c02.split.stage_state", _eqv(c, yk, yy + acc, scale), info=dict(stage=k))
                acc = acc + h * vals[k] * (float(A[k, 1]) * drift + float(A[k, 2]) * kick)
                tcur = tcur + h * float(A[k, 1])
            c.check("c02.split.increment_is_composition", _eqv(c, dY, acc, scale))
            c.check("c02.dTime_is_h", c.eq(dT, h))
            c.check("c02.fixed_step_returns_h", c.eq(new_h, h))
            tt, yy = tt + dT, yy + dY
        return
    # ---- implicit classes
    import desolver.utilities.optimizer as opt
    B = np.asarray(cls.tableau_final, dtype=np.float64)
    s = A.shape[0]
    if mode == "residual":
        if c.symbolic:
            c.ackermann = False
        rhs = FreshRhs(c, shape, name="f", mode="uf")
        probe = FreshRhs(c, shape, name="f", mode="uf")
        Ks = c.array([c.real("K%d" % i) for i in range(n * s)]).reshape(shape + (s,))
        st, res = run(integ.algebraic_system, Ks.reshape(-1), rhs, t, y, h, {})
        if st == "exc":
            c.check("c02.residual.no_exception", False, info=repr(res))
            return
        ok_shape = int(np.prod(np.shape(res))) == n * s
        c.check("c02.residual.one_entry_per_stage_and_component", ok_shape)
        if not ok_shape:
            return
        res = np.asarray(res, dtype=object).reshape(shape + (s,)) if c.symbolic else np.asarray(res).reshape(shape + (s,))
        for i in range(s):
            want_y = y
            for j in range(s):
                if A[i, 1 + j] != 0.0:
                    want_y = want_y + h * float(A[i, 1 + j]) * Ks[..., j]
            c.check("c02.residual.is_K_minus_f_at_stage_point", _eqv(c, res[..., i], Ks[..., i] - probe(t + float(A[i, 0]) * h, want_y), scale), info=dict(stage=i))
        return
    rhs = FreshRhsWithJac(c, shape)
    log = []
    if inst.get("ctrl") == "free":
        # the controller proposes an arbitrary next step (also a LONGER one, as the real controller of the non-adaptive implicit
        # classes does) and never asks for a retry itself: only the stage solver's verdict can force one
        integ.update_timestep = ctrl_stub(c, integ, max_redo=0)
    else:
        integ.update_timestep = ctrl_stub(c, integ, fixed=1.0)
    succ = "false" if mode == "allfail" else "fork"

    def documented_tol(state):
        # the residual an implicit stage solve has to reach: half of atol + rtol*max|y| for the state THIS step starts from
        m = absval(c, flat(c, state)[0])
        for v in flat(c, state)[1:]:
            m = maxval(c, m, absval(c, v))
        return 0.5 * (float(integ.atol) + float(integ.rtol) * m)
    if inst.get("second_call"):
        # history: the object has already taken one (accepted) step from a state of another magnitude
        y_first = c.array([c.real("yfirst%d" % i) for i in range(n)]).reshape(shape)
        with patched(opt, "nonlinear_roots", verdict_root_stub(c, success="true", prec="zero", log=[])):
            st0, r0 = run(integ, rhs, t - h, y_first, {}, h)
        if st0 != "ok":
            c.check("c02.accept.first_call_returns", False, info=repr(r0))
            return
    with patched(opt, "nonlinear_roots", verdict_root_stub(c, success=succ, prec="zero" if mode == "allfail" else "sym", log=log,
                                                           max_fail=inst.get("max_fail", 2))):
        st, r = run(integ, rhs, t, y, {}, h)
    if log and mode != "allfail":
        c.check("c02.accept.stage_solver_is_given_the_tolerance_of_this_steps_state", c.all([c.eq(e["tol"], documented_tol(y), 1) for e in log]),
                info=dict(solves=len(log)))
    from desolver.exception_types import FailedToMeetTolerances
    if st == "exc":
        if isinstance(r, FailedToMeetTolerances):
            c.note("outcome", "FailedToMeetTolerances after %d solves" % len(log))
            bad_last = [(not e["success"]) | ~(c.lt(e["prec"], e["tol"])) if c.symbolic else ((not e["success"]) or not (e["prec"] < e["tol"])) for e in log]
            c.check("c02.accept.raise_only_when_every_solve_failed", c.all(bad_last))
            c.check("c02.accept.retries_before_giving_up", len(log) == 65, info=dict(solves=len(log)))
        else:
            c.check("c02.accept.no_other_exception", False, info=repr(r))
        return
    if mode == "allfail":
        c.check("c02.accept.unconverged_step_never_accepted", False, info="__call__ returned although every stage solve reported failure")
        return
    new_h, (dT, dY) = r
    last = log[-1]
    ok_last = c.lt(last["prec"], last["tol"]) if last["success"] else False
    c.check("c02.accept.unconverged_step_never_accepted", ok_last, info=dict(solves=len(log)))
    Kroot = last["root"].reshape(shape + (s,))
    want = 0 * y
    for i in range(s):
        if B[0, 1 + i] != 0.0:
            want = want + dT * float(B[0, 1 + i]) * Kroot[..., i]
    c.check("c02.accept.increment_is_weighted_sum_of_returned_root", _eqv(c, dY, want, scale))
    c.check("c02.accept.stage_values_are_returned_root", _eqv(c, integ.stage_values, Kroot, scale))
    # an implicit step may only be shortened (after a failed stage solve), never reversed or lengthened
    c.check("c02.accept.accepted_step_has_sign_of_h_and_is_not_longer", c.all([c.lt(0, dT * h), c.le(dT * dT, h * h, 1)]), info=dict(solves=len(log)))
    if all(e["success"] for e in log) and len(log) == 1:
        c.check("c02.accept.first_solve_converged_means_full_step", c.eq(dT, h))
    # attempted step sizes: the first is h, later ones never larger in magnitude
    c.note("solves", len(log))
