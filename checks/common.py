"""Shared scenario pieces: user right-hand-side stubs, contract stubs for sub-solvers, helpers.

Everything here runs both on a symbolic PathCtx and on the float ConcreteCtx (replay)."""
from __future__ import annotations

import contextlib

import numpy as np


class InjectedFault(Exception):
    pass


class StepCap(Exception):
    """raised by the step-cap callback: the run took more steps than the harness assumptions allow"""


def flat(c, v):
    a = np.asarray(v, dtype=object) if c.symbolic else np.asarray(v)
    return list(a.reshape(-1))


class FreshRhs:
    """user right-hand side returning, at its i-th call, fresh symbols K_i (an arbitrary function of (t, y):
    'fresh' mode), or a congruent uninterpreted function of its arguments ('uf' mode)."""

    def __init__(self, c, shape, name="f", mode="fresh", fault_at=None, fault_exc=None, autonomous=False, const=None):
        self.c = c
        self.shape = tuple(shape)
        self.n = int(np.prod(self.shape)) if self.shape else 1
        self.name = name
        self.mode = mode
        self.calls = []        # (t, y) of every call started
        self.values = []       # returned value of every completed call
        self.completed = 0
        self.fault_at = fault_at
        self.fault_exc = fault_exc
        self.autonomous = autonomous
        self.const = const
        self.nan_at = None      # value fault: the call with this index returns NaN (no exception)
        self.reuse_buffer = False   # the rhs writes every result into ONE preallocated array and returns that same object each time
        self._buf = None

    def __call__(self, t, y, **kw):
        c = self.c
        idx = len(self.calls)
        self.calls.append((t, y))
        if self.fault_at is not None and idx == self.fault_at:
            raise self.fault_exc if self.fault_exc is not None else InjectedFault("rhs call %d" % idx)
        nonfinite_arg = any(isinstance(v, (float, np.floating)) and not np.isfinite(v) for v in [t] + list(flat(c, y)))
        if (self.nan_at is not None and idx == self.nan_at) or nonfinite_arg:
            # f(nan) = nan; the injected value fault models an rhs leaving its domain (sqrt/log of a negative number)
            val = np.full(self.shape, np.nan) if self.shape else float("nan")
            if c.symbolic and self.shape:
                val = c.array([float("nan")] * self.n).reshape(self.shape)
            self.values.append(val)
            self.completed += 1
            return val
        if self.mode == "const":
            outs = [self.const[j] for j in range(self.n)]
        else:
            args = [] if self.autonomous else [t]
            args += flat(c, y)
            if not getattr(self, "ignore_kw", False):
                args += [kw[k] for k in sorted(kw)]      # the equation's parameters (OdeSystem.constants) are arguments of f
            outs = c.uf(self.name, args, self.n, fresh=(self.mode == "fresh"))
        val = c.array(outs).reshape(self.shape) if self.shape else outs[0]
        if self.reuse_buffer and self.shape:
            self.values.append(val.copy())
            if self._buf is None:
                self._buf = val.copy()
            self._buf[...] = val
            self.completed += 1
            return self._buf
        self.values.append(val)
        self.completed += 1
        return val


class FreshRhsWithJac(FreshRhs):
    """same, with a user-supplied Jacobian (arbitrary matrix: fresh symbols per request)"""

    def __init__(self, *a, **kw):
        super().__init__(*a, **kw)
        self.jac_calls = []

    def jac(self, t, y, **kw):
        c = self.c
        self.jac_calls.append((t, y))
        outs = c.uf(self.name + "jac", [], self.n * self.n, fresh=True)
        return c.array(outs).reshape(self.shape + self.shape)


@contextlib.contextmanager
def patched(obj, name, value):
    old = getattr(obj, name)
    setattr(obj, name, value)
    try:
        yield
    finally:
        setattr(obj, name, old)


def verdict_root_stub(c, success="true", prec="zero", log=None, max_fail=2, diverge_at=None, congruent=False):
    """contract stub for optimizer.nonlinear_roots: arbitrary root K, success per mode, prec >= 0.
    success: 'true' | 'false' | 'fork' ; prec: 'zero' | 'sym'.  max_fail bounds the number of solves that may come
    back failed (success False or prec >= tol) on forking paths (unwinding bound)."""
    state = dict(n=0, fails=0)

    def stub(f, x0, jac=None, tol=None, verbose=False, maxiter=200, use_scipy=True, additional_args=tuple(),
             additional_kwargs=dict(), var_bounds=None):
        i = state["n"]
        state["n"] += 1
        shape = np.shape(x0)
        n = int(np.prod(shape)) if shape else 1
        bad_guess = any(isinstance(v, (float, np.floating)) and not np.isfinite(v) for v in flat(c, x0))
        if bad_guess or (diverge_at is not None and i == diverge_at):
            # the iteration diverged (diverge_at), or it was started from a non-finite guess: like the real solver, a non-finite
            # "root" comes back with success False
            root = np.full(shape, np.nan)
            if c.symbolic:
                root = c.array([float("nan")] * n).reshape(shape)
            if log is not None:
                log.append(dict(i=i, success=False, prec=float("nan"), tol=tol, root=root, diverged=True, bad_guess=bad_guess))
            return root, (False, 0, 0, 0, float("nan"))
        if congruent:
            # a deterministic solver: the root it returns is a function of the stage equations (time, state, step) AND of the initial
            # guess it was started from - two systems in identical situations get identical roots, anything else is a different term
            aa = list(additional_args)
            args_ = list(flat(c, x0)) + [aa[1]] + list(flat(c, aa[2])) + [aa[3]] if len(aa) >= 4 else list(flat(c, x0))
            if congruent == "with_jacobian":
                # ... and of the residual and Jacobian it is handed: both are EVALUATED here through the real code (the real algebraic
                # system calls the user's rhs through DiffRHS, the real block Jacobian uses the finite-difference rhs Jacobian)
                args_ = args_ + list(flat(c, f(x0, *additional_args)))
                if jac is not None:
                    args_ = args_ + list(flat(c, jac(x0, *additional_args)))
            K = c.uf("Kroot", args_, n, fresh=False)
        else:
            K = c.uf("Kroot", [], n, fresh=True)
        root = c.array(K).reshape(shape)
        exhausted = state["fails"] >= max_fail
        if success == "true":
            ok = True
        elif success == "false":
            ok = False
        else:
            sv = c.real("succ%d" % i)
            if exhausted:
                c.assume(sv > 0)        # unwinding bound on the number of failing solves
            ok = bool(sv > 0)
        if prec == "zero":
            p = 0.0
            good = ok
        else:
            p = c.real("prec%d" % i)
            c.assume(p >= 0)
            if exhausted and success != "false":
                c.assume(p < tol)
            good = ok and bool(p < tol)
        if not good:
            state["fails"] += 1
        if log is not None:
            log.append(dict(i=i, success=ok, prec=p, tol=tol, root=root))
        return root, (ok, 0, 0, 0, p)
    return stub


def ctrl_stub(c, integrator, log=None, lo=0.2, hi=2.6, max_redo=None, fixed=None, fixed_redo=False):
    """contract stub for integrator.update_timestep: returns (corr*dT, corr < 0.81) for an arbitrary corr in (lo, hi)
    (the real controller's corr = 1 + arctan(0.8*c - 1), c >= 0, lies in (0.2146, 2.5708): C05-b ties these constants to the real code).
    max_redo bounds the number of rejections the stub may issue in total (unwinding bound)."""
    state = dict(n=0, redo=0)

    def stub(*a, **kw):
        i = state["n"]
        state["n"] += 1
        if fixed is not None:
            dT = integrator.solver_dict["timestep"]
            if log is not None:
                log.append(dict(i=i, corr=fixed, dT=dT, redo=fixed_redo))
            return fixed * dT, fixed_redo
        corr = c.real("corr%d" % i)
        c.assume(corr > lo)
        c.assume(corr < hi)
        if max_redo is not None and state["redo"] >= max_redo:
            c.assume(corr >= 0.81)
        dT = integrator.solver_dict["timestep"]
        redo = bool(corr < 0.81)
        if redo:
            state["redo"] += 1
        if log is not None:
            log.append(dict(i=i, corr=corr, dT=dT, redo=redo))
        return corr * dT, redo
    return stub


def run(fn, *a, **kw):
    """('ok', value) or ('exc', exception) - exceptions raised by the code under test are path results.
    ('hang', None) when the call spends more than HANG_S seconds outside the solver (non-termination guard)."""
    return run_bounded(HANG_S, fn, *a, **kw)


HANG_S = 40.0


def run_bounded(limit, fn, *a, **kw):
    import signal
    import time
    from srx import core
    # CPU time of this process outside the solver (wall time would trip under machine load)
    state = dict(t0=time.process_time(), s0=core.IN_SOLVER[1])

    def handler(signum, frame):
        spent = (time.process_time() - state["t0"]) - (core.IN_SOLVER[1] - state["s0"])
        if core.IN_SOLVER[0] > 0 or spent < limit:
            signal.setitimer(signal.ITIMER_REAL, max(0.5, min(limit, limit - spent)))
            return
        raise core.Hang("no return after %.1fs outside the solver" % spent)

    nested = signal.getsignal(signal.SIGALRM) not in (signal.SIG_DFL, signal.SIG_IGN, None)
    if nested:       # an outer run() already guards this call
        try:
            return "ok", fn(*a, **kw)
        except Exception as e:
            return "exc", e
    old = signal.signal(signal.SIGALRM, handler)
    signal.setitimer(signal.ITIMER_REAL, limit)
    try:
        return "ok", fn(*a, **kw)
    except Exception as e:
        return "exc", e
    except core.Hang:
        return "hang", None
    finally:
        signal.setitimer(signal.ITIMER_REAL, 0)
        signal.signal(signal.SIGALRM, old)


def sgn(c, x):
    """sign as a python int on this path (forks symbolically)"""
    if bool(x > 0):
        return 1
    if bool(x < 0):
        return -1
    return 0


def absval(c, x):
    if c.symbolic:
        from srx import core
        return core.sym_abs(x)
    return abs(x)


def maxval(c, *xs):
    if c.symbolic:
        from srx import core
        r = xs[0]
        for x in xs[1:]:
            r = core.sym_max(r, x)
        return r
    return max(xs)


METHOD_DIM = {
    "Euler": (1,), "RK4": (1,), "Midpoint": (1,), "Explicit RK5": (1,), "Dormand-Prince": (1,), "RK45": (1,),
    "Adaptive Heun-Euler": (1,), "Symplectic Forward Euler": (2,), "ABAS5O6H": (2,), "BABS9O7H": (2,),
    "BackwardEuler": (1,), "ImplicitMidpoint": (1,), "RadauIIA5": (1,), "GaussLegendre4": (1,),
}
