"""C13 - results do not depend on call history; reset restores the initial state."""
from __future__ import annotations

import itertools

import numpy as np

from . import spans
from .common import run, absval, flat, StepCap, FreshRhs, patched

PROPERTY = "C13"
LEVEL = "other"
EXPLANATION = (
    "Operation sequences over {integrate(), integrate(T), set dt, set rtol/atol, set method, set_kick_vars, integrate with an event, "
    "faulting integrate, reset} are enumerated up to the length bound; their numeric arguments (t0, tf, dt0, T, new dt, event position) "
    "are real solver variables and every feasible path of the real OdeSystem code is explored.  After each sequence z3 decides: a "
    "further integrate() at the target changes no observable (t, y, events, dt, nfev, status); after reset() the system shows "
    "t=[t0], y=[y0], no events, empty dense output, dt0 (sign per span), nfev 0, status 0, and its next integrate() is term-identical "
    "(congruent uninterpreted rhs) to that of a freshly constructed system with the same settings; the caller's y0 array and "
    "constants dict are untouched (element identity + comparison); splitting the span into two calls leaves the rows before the "
    "split term-identical to the single-call run.")
ASSUMPTIONS = [
    "real arithmetic: 'bit-for-bit' is decided as term identity over R (same polynomial normal form)",
    "|tf-t0| <= N*|dt0|, 1/64 <= |dt0| <= 256, |t0|,|tf| <= 64; fixed-step families (Euler, RK4 after a method change, symplectic Euler)",
    "rhs = uninterpreted function with syntactic congruence; events: differential_system.handle_events replaced by a stub that reports one non-terminal event "
    "at a symbolic position inside the first step (the real event pipeline is C07-C09); faults: one injected rhs exception",
]
BOUNDS = {"quick": dict(sequence_length="<= 2 (all) + selected length 3", N=2), "thorough": dict(sequence_length="<= 3 (all)", N=2)}
OUTSIDE = ["'within tolerance' agreement of adaptive methods across different splittings", "literal bit equality in IEEE arithmetic (observed in replays only)"]

ASSUMPTIONS += [
    "event histories also WITHOUT dense output (detector reporting in the 1st/2nd/3rd examined step; DT-E: the run before the reset on another step)",
    "implicit family without a user Jacobian (fd-jacobian instances): the real finite-difference JacobianWrapper behind DiffRHS.jac on an affine rhs k*a*y + b; the "
    "stage solver is a congruent function of its initial guess, of (t, y, h) and of the residual and block Jacobian evaluated through the real code; operation CONST "
    "replaces the constants",
    "near-target no-op: integrate(t_last + delta) with |delta| < 32*eps; other-system instance: two systems built without constants",
]
OPS = ["I", "IT", "DT", "TOL", "M", "KV", "E", "F", "R"]


def instances(tier):
    out = []
    quick = tier == "quick"
    b = dict(wall_s=40 if quick else 90, max_paths=1500 if quick else 20000)       # (thorough: 840 instances)
    seqs = [()]
    for L in (1, 2):
        seqs += list(itertools.product(OPS, repeat=L))
    if quick:
        seqs += [("IT", "DT", "I"), ("F", "R", "I"), ("E", "R", "E"), ("I", "R", "I"), ("M", "IT", "R"), ("DT", "F", "I"), ("IT", "E", "R"),
                 ("KV", "I", "R"), ("TOL", "IT", "F"), ("E", "F", "R"), ("IT", "IT", "I"), ("R", "DT", "IT")]
    else:
        seqs += list(itertools.product(OPS, repeat=3))
    for s in seqs:
        fam = "sympl_euler" if "KV" in s else "euler"
        out.append(dict(id="seq-%s-%s" % ("-".join(s) or "empty", fam), ops=list(s), family=fam, N=2, budget=b))
    # event histories WITHOUT dense output (the interpolants kept for the event search are hidden state), the detector reporting in the
    # first / second / third examined step of each run
    # (DT-E: the run before the reset used another step, so whatever survives the reset differs from what the re-run produces)
    for sq in ((("E",), ("E", "R"), ("DT", "E")) if quick else ([("E",)] + [(x, "E") for x in OPS] + [("E", x) for x in OPS if x != "E"] + [("DT", "E", "R"), ("DT", "E", "F")])):
        for evcall in (1, 2, 3):
            out.append(dict(id="seq-%s-euler-nodense-evcall%d" % ("-".join(sq), evcall), ops=list(sq), family="euler", N=2, dense=False, evcall=evcall, budget=b))
    for sq in (("I",), ("I", "R"), ("IT", "R"), ("F", "R")):
        out.append(dict(id="seq-%s-backward_euler" % "-".join(sq), ops=list(sq), family="backward_euler", N=2, budget=dict(b, wall_s=70)))
    # history of ANOTHER system: a system built without constants gets an entry written into its (own) constants dict; systems built
    # afterwards, again without constants, start with no constants and their rhs is called without that parameter
    out.append(dict(id="other-system-constants-written-euler", ops=["XCONST"], family="euler", N=2, budget=b))
    # implicit scheme WITHOUT a user Jacobian (the real finite-difference JacobianWrapper behind DiffRHS.jac, the stage solver a function
    # of the residual and Jacobian it is handed): the equation's parameters are replaced before the reset
    for sq in ((("I", "CONST"),) if quick else (("I", "CONST"), ("I", "CONST", "R"), ("CONST", "I"), ("IT", "CONST"))):
        out.append(dict(id="seq-%s-backward_euler-fd-jacobian" % "-".join(sq), ops=list(sq), family="backward_euler", N=1, fd=True, budget=dict(b, wall_s=80)))
    out.append(dict(id="split-euler", ops=["SPLIT"], family="euler", N=3, budget=b))
    out.append(dict(id="split-sympl_euler", ops=["SPLIT"], family="sympl_euler", N=3, budget=b))
    out.append(dict(id="split-rk4", ops=["SPLIT"], family="rk4", N=2, budget=b))
    return out


def _eqv(c, a, b):
    fa, fb = flat(c, a), flat(c, b)
    return len(fa) == len(fb) and c.all([c.eq(u, v) for u, v in zip(fa, fb)])


def _rows_equal(c, a, b, n):
    return c.all([c.all([c.eq(a.t[i], b.t[i]), _eqv(c, a.y[i], b.y[i])]) for i in range(n)])


def _snapshot(c, a, rhs):
    return dict(t=list(a.t), y=[a.y[i] for i in range(len(a.t))], n_events=len(a.events), dt=a.dt, nfev=a.nfev, status=a.integration_status)


def _same_snapshot(c, s1, s2):
    if len(s1["t"]) != len(s2["t"]) or s1["n_events"] != s2["n_events"] or s1["nfev"] != s2["nfev"] or s1["status"] != s2["status"]:
        return False
    return c.all([c.eq(u, v) for u, v in zip(s1["t"], s2["t"])] + [_eqv(c, u, v) for u, v in zip(s1["y"], s2["y"])] + [c.eq(s1["dt"], s2["dt"])])


def scenario(c, inst):
    if spans.FAMILIES[inst["family"]][2] == "implicit":
        # stateful integrators: the stage solver is a deterministic function of the stage equations and of its initial guess (congruent
        # contract stub), so that anything an integrator object carries over a reset() shows up as a different trajectory
        import desolver.utilities.optimizer as opt
        from .common import verdict_root_stub
        with patched(opt, "nonlinear_roots", verdict_root_stub(c, congruent=("with_jacobian" if inst.get("fd") else True))):
            return _scenario(c, inst)
    return _scenario(c, inst)


def _scenario(c, inst):
    import desolver as de
    import desolver.differential_system as ds
    if c.symbolic:
        c.ackermann = False
    t0, tf, dt0 = c.real("t0"), c.real("tf"), c.real("dt0")
    span, adt = spans.input_assumptions(c, inst, t0, tf, dt0)
    fam = inst["family"]
    method, shape, kind = spans.FAMILIES[fam]
    n_state = int(np.prod(shape))
    y0_elems = [c.real("y0_%d" % i) for i in range(n_state)]
    y0 = c.array(list(y0_elems)).reshape(shape)
    y0_copy = list(flat(c, y0))
    consts = dict(k=c.real("kconst"))
    consts_copy = dict(consts)
    settings_consts = [consts]
    dense = inst.get("dense", True)
    evcall = inst.get("evcall", 1)

    fd_coef = (c.real("fd_a"), c.real("fd_b")) if inst.get("fd") else None

    def mk_rhs():
        if fd_coef is not None:
            # affine in y, the parameter k is a factor of the slope; NO jac attribute: DiffRHS differentiates it by finite differences
            class Aff:
                def __init__(self):
                    self.calls = []
                    self.fault_at = None

            base_ = Aff()

            def rhs_fd(t, y, k=None):
                base_.calls.append((t, y))
                return k * fd_coef[0] * y + fd_coef[1]
            rhs_fd.base = base_
            return rhs_fd
        base = FreshRhs(c, shape, name="f", mode="uf")

        def rhs(t, y, k=None):
            return base(t, y)
        rhs.base = base
        if kind == "implicit":
            def jac(t, y, k=None):
                return c.array(c.uf("fjac", [t] + list(flat(c, y)), n_state * n_state)).reshape(shape + shape)
            rhs.jac = jac
        return rhs

    def construct(rhs, rtol=None, atol=None):
        a = de.OdeSystem(rhs, y0=y0, t=(t0, tf), dt=dt0, dense_output=dense, rtol=rtol, atol=atol, constants=settings_consts[0])
        a.method = method
        return a

    rhs = mk_rhs()
    st, a = run(construct, rhs)
    if st != "ok":
        c.check("c13.constructs", False, info=repr(a))
        return
    cap = 8
    settings = dict(method=method, rtol=None, atol=None, kv=None)
    ops = inst["ops"]
    if ops == ["XCONST"]:
        seen_kw = []
        base0 = FreshRhs(c, shape, name="f", mode="uf")

        def rhs0(t, y, **kw):
            seen_kw.append(dict(kw))
            return base0(t, y)
        st, first = run(lambda: de.OdeSystem(rhs0, y0=y0, t=(t0, tf), dt=dt0))
        if st != "ok":
            c.check("c13.constructs", False, info=repr(first))
            return
        first.constants["k"] = consts["k"]
        del seen_kw[:]
        st, second = run(lambda: de.OdeSystem(rhs0, y0=y0, t=(t0, tf), dt=dt0))
        if st != "ok":
            c.check("c13.constructs", False, info=repr(second))
            return
        second.method = method
        c.case()
        c.check("c13.system_built_without_constants_has_none", len(second.constants) == 0, info=dict(keys=sorted(second.constants)))
        st, r = run(second.integrate, callback=[spans.cap_callback(c, cap, kind)])
        c.check("c13.rhs_of_a_system_without_constants_is_called_without_parameters", st == "ok" and all(len(k) == 0 for k in seen_kw),
                info=dict(st=st, seen=[sorted(k) for k in seen_kw[:3]]))
        return
    if ops == ["SPLIT"]:
        _split(c, inst, a, construct, mk_rhs, t0, tf, adt, kind)
        return
    evstate = dict(n=0)

    def ev(t, y, **kw):
        return t
    ev.is_terminal = False

    def events_stub(sol_tuple, events, constants, direction, is_terminal, attributes):
        sol, t_prev, t_next = sol_tuple
        evstate["n"] += 1
        if evstate["n"] == evcall:
            lam = c.real("evpos")
            c.assume(lam > 0)
            c.assume(lam < 1)
            root = t_prev + lam * (t_next - t_prev)
            return np.array([0]), c.array([root]), False, [events[0]]
        return np.array([], dtype=int), c.array([]), False, []

    log = []
    for i, op in enumerate(ops):
        if op == "I":
            r = run(a.integrate, callback=[spans.cap_callback(c, cap, kind)])
        elif op == "IT":
            T1 = c.real("T%d" % i)
            cur = a.t[-1]
            c.assume((T1 - cur) * (tf - T1) >= 0)
            d = absval(c, T1 - cur)
            c.assume(d <= 2 * absval(c, a.dt))
            r = run(a.integrate, T1, callback=[spans.cap_callback(c, cap, kind)])
        elif op == "DT":
            g = c.real("g%d" % i)
            c.assume(absval(c, g) >= 1.0 / 64)
            c.assume(absval(c, g) <= 256)
            c.assume(absval(c, tf - a.t[-1]) <= 3 * absval(c, g))

            def setdt():
                a.dt = g
            r = run(setdt)
        elif op == "TOL":
            def settol():
                a.rtol = 1e-5
                a.atol = 1e-7
            r = run(settol)
            settings["rtol"], settings["atol"] = 1e-5, 1e-7
        elif op == "M":
            new = "RK4" if settings["method"] != "RK4" else "Euler"

            def setm():
                a.method = new
            r = run(setm)
            if r[0] == "ok":
                settings["method"] = new
        elif op == "KV":
            mask = np.array([True, False])

            def setkv():
                a.set_kick_vars(mask)
            r = run(setkv)
            if r[0] == "ok":
                settings["kv"] = mask
        elif op == "E":
            evstate["n"] = 0
            with patched(ds, "handle_events", events_stub):
                r = run(a.integrate, events=[ev], callback=[spans.cap_callback(c, cap, kind)])
            if r[0] == "exc":
                from .events_common import oracle_interface_mismatch
                oracle_interface_mismatch(getattr(r[1], "__cause__", None))      # (the stub no longer fits handle_events' interface: inconclusive)
        elif op == "F":
            rhs.base.fault_at = len(rhs.base.calls) + 1
            r = run(a.integrate, callback=[spans.cap_callback(c, cap, kind)])
            rhs.base.fault_at = None
        elif op == "CONST":
            newc = dict(k=c.real("knew%d" % i))
            c.assume(newc["k"] != settings_consts[0]["k"])

            def setc():
                a.constants = newc
            r = run(setc)
            settings_consts[0] = newc
        elif op == "R":
            r = run(a.reset)
        else:
            raise ValueError(op)
        log.append((op, r[0]))
        if r[0] == "hang":
            c.check("c13.operation_returns", False, info=dict(op=op, i=i))
            return
        if r[0] == "exc" and isinstance(getattr(r[1], "__cause__", None), StepCap):
            return      # outside the step bound of this harness
    c.note("ops", log)
    c.case()
    # (a) integrate() at the target is a no-op
    at_target = bool(absval(c, a.t[-1] - tf) < 4 * spans.EPS64)
    if at_target:
        before = _snapshot(c, a, rhs)
        st, r = run(a.integrate)
        after = _snapshot(c, a, rhs)
        c.check("c13.integrate_at_target_changes_nothing", st == "ok" and _same_snapshot(c, before, after), info=dict(ops=ops))
        # the same for a target that differs from the current time by less than the library's own arrival tolerance (32*eps: the
        # distance at which integrate() considers a target reached): e.g. the same target recomputed with another rounding
        delta = c.real("delta_target")
        c.assume(absval(c, delta) < 32 * spans.EPS64)
        before = _snapshot(c, a, rhs)
        st, r = run(a.integrate, a.t[-1] + delta)
        after = _snapshot(c, a, rhs)
        c.check("c13.integrate_within_arrival_tolerance_of_target_changes_nothing", st == "ok" and _same_snapshot(c, before, after), info=dict(ops=ops))
    # (c) caller's objects untouched
    c.check("c13.caller_y0_unmodified", all(u is v for u, v in zip(flat(c, y0), y0_copy)) if c.symbolic else bool(np.all(np.asarray(y0).reshape(-1) == np.asarray(y0_copy))))
    c.check("c13.caller_constants_unmodified", set(consts) == set(consts_copy) and all(consts[k] is consts_copy[k] for k in consts))
    # (b) reset -> pristine, and the next run equals a fresh system's with the same settings
    st, r = run(a.reset)
    c.check("c13.reset_runs", st == "ok", info=repr(r))
    if st != "ok":
        return
    sol = a.sol
    flags = [len(a.t) == 1, len(a.y) == 1, len(a.events) == 0, a.nfev == 0, a.integration_status == "Integration has not been run.",
             (sol is not None and len(sol) == 0) if dense else sol is None]
    c.check("c13.reset_restores_pristine_observables", all(flags), info=dict(flags=flags, ops=ops))
    c.check("c13.reset_restores_t0_y0_dt0", c.all([c.eq(a.t[0], t0), _eqv(c, a.y[0], y0), c.eq(absval(c, a.dt), adt), c.lt(0, a.dt * (tf - t0))]),
            info=dict(ops=ops))
    rhs2 = mk_rhs()

    def fresh():
        b = de.OdeSystem(rhs2, y0=y0, t=(t0, tf), dt=dt0, dense_output=dense, rtol=settings["rtol"], atol=settings["atol"], constants=settings_consts[0])
        b.method = settings["method"]
        if settings["kv"] is not None:
            b.set_kick_vars(settings["kv"])
        return b
    st, b = run(fresh)
    if st != "ok":
        c.check("c13.fresh_system_constructs", False, info=repr(b))
        return
    if "E" in ops:
        # the history monitored an event: the re-run monitors the SAME event function object (the detector reports the same crossing to
        # both systems) - what was recorded before the reset must not influence what is recorded now
        with patched(ds, "handle_events", events_stub):
            evstate["n"] = 0
            sa = run(a.integrate, events=[ev], callback=[spans.cap_callback(c, cap, kind)])
            evstate["n"] = 0
            sb = run(b.integrate, events=[ev], callback=[spans.cap_callback(c, cap, kind)])
        if sa[0] == "ok" and sb[0] == "ok":
            c.check("c13.events_after_reset_equal_fresh_run", len(a.events) == len(b.events) and
                    c.all([c.eq(ea.t, eb.t) for ea, eb in zip(a.events, b.events)] + [_eqv(c, ea.y, eb.y) for ea, eb in zip(a.events, b.events)]),
                    info=dict(ops=ops, a=len(a.events), b=len(b.events)))
    else:
        sa = run(a.integrate, callback=[spans.cap_callback(c, cap, kind)])
        sb = run(b.integrate, callback=[spans.cap_callback(c, cap, kind)])
    if sa[0] != "ok" or sb[0] != "ok":
        c.check("c13.run_after_reset_behaves_like_fresh_run", sa[0] == sb[0], info=dict(a=repr(sa[1]), b=repr(sb[1]), ops=ops))
        return
    same = len(a.t) == len(b.t) and _rows_equal(c, a, b, min(len(a.t), len(b.t)))
    c.check("c13.run_after_reset_equals_fresh_run", same, info=dict(ops=ops, nA=len(a.t), nB=len(b.t)))
    # nfev: the fresh system additionally counts the constructor's shape probe (one call), the reset one starts from 0
    c.check("c13.counters_after_reset_equal_fresh_run", a.nfev + 1 == b.nfev and len(a.events) == len(b.events), info=dict(a=a.nfev, b=b.nfev))
    if dense and len(a.t) == len(b.t) and len(a.sol.t_eval) == len(b.sol.t_eval):
        ok = []
        for pa, pb in zip(a.sol.y_interpolants, b.sol.y_interpolants):
            for nm in ("p0", "p1", "m0", "m1"):
                ok.append(_eqv(c, getattr(pa, nm), getattr(pb, nm)))
        c.check("c13.dense_output_after_reset_equals_fresh_run", c.all(ok), info=dict(ops=ops))


def _split(c, inst, a, construct, mk_rhs, t0, tf, adt, kind):
    cap = inst["N"] + 4
    T1 = c.real("T1")
    c.assume((T1 - t0) * (tf - T1) > 0)
    c.assume(absval(c, T1 - t0) >= 1.0 / 64)
    c.assume(adt <= absval(c, T1 - t0))      # otherwise the first call halves the step for good: 'within tolerance' only (not decided here)
    st, r = run(a.integrate, T1, callback=[spans.cap_callback(c, cap, kind)])
    if st != "ok":
        return
    n1 = len(a.t)
    st, r = run(a.integrate, callback=[spans.cap_callback(c, cap + 2, kind)])
    if st != "ok":
        return
    st, b = run(construct, mk_rhs())
    if st != "ok":
        return
    st, r = run(b.integrate, callback=[spans.cap_callback(c, cap, kind)])
    if st != "ok":
        return
    c.case()
    # rows strictly before the split point that were taken with the full step are identical; the row at the split is the clamped one
    k = n1 - 1       # index of the row at T1
    c.check("c13.split.rows_before_the_split_identical", k - 1 < len(b.t) and _rows_equal(c, a, b, max(0, min(k, len(b.t)))), info=dict(k=k, nB=len(b.t)))
    c.check("c13.split.both_reach_target", c.all([c.le(absval(c, a.t[-1] - tf), 64 * spans.EPS64 * 64), c.le(absval(c, b.t[-1] - tf), 64 * spans.EPS64 * 64)]))
