"""C19 - trajectory lookup by index and by time returns the right sample."""
from __future__ import annotations

import numpy as np

from . import spans
from .common import run, absval, flat, StepCap

PROPERTY = "C19"
LEVEL = "other"
EXPLANATION = (
    "On the symbolic trajectories produced by the real OdeSystem.integrate (t0, tf, dt0 arbitrary reals, forward and backward, "
    "one call or a continuation; uniform grids and ctrl-stub adaptive grids) the real __getitem__ / __len__ / legacy iteration "
    "are executed: every integer index in [-len-2, len+2] (sequence semantics, IndexError outside), iteration yields each row "
    "once in order, and a lookup at an arbitrary real time q (solver variable, inside and outside the range): without dense "
    "output z3 is asked for a q where the returned row is not a recorded sample nearest in time (ties either); with dense "
    "output the result must be (q, sol(q)).  A time slice spanning the whole run must return the whole run.")
ASSUMPTIONS = [
    "real arithmetic; |tf-t0| <= N*|dt0|, 1/64 <= |dt0| <= 256, |t0|,|tf| <= 64, |q| <= 128",
    "rhs = fresh symbols per call; adaptive grids: ctrl contract stub (at most one rejection)",
]
BOUNDS = {"quick": dict(N=3, rows="<= 5"), "thorough": dict(N=4, rows="<= 7")}
OUTSIDE = ["integer-valued times passed as python ints are indices by design (a[2] is the third row, not t=2)", "IEEE ties"]


ASSUMPTIONS = list(ASSUMPTIONS) + [
    "three-legs instances: two intermediate targets, every leg longer than one and shorter than two steps (the landing steps of the first two legs are interior rows); "
    "the time-lookup three-leg instance is explored within its wall budget only (reported as not exhaustive)",
    "lookups-in-callback instances: a callback does a time lookup (symbolic q_cb) and a whole-run slice after every step",
    "integer indices are tried as python int, numpy int64 / int32 / intp and (non-negative) uint8",
]


def instances(tier):
    out = []
    N = 3 if tier == "quick" else 4
    b = dict(wall_s=80 if tier == "quick" else 600, max_paths=3000 if tier == "quick" else 30000)
    fams = ["euler", "heun_euler"] if tier == "quick" else ["euler", "rk4", "sympl_euler", "heun_euler"]
    for fam in fams:
        n = N if spans.FAMILIES[fam][2] == "fixed" else 2
        out.append(dict(id="index-iter-%s-N%d" % (fam, n), family=fam, N=n, mode="index", dense=False, budget=b))
        out.append(dict(id="time-lookup-%s-N%d" % (fam, n), family=fam, N=n, mode="time", dense=False, budget=b))
        out.append(dict(id="slice-%s-N%d" % (fam, n), family=fam, N=n, mode="slice", dense=False, budget=b))
    out.append(dict(id="time-lookup-dense-euler-N2", family="euler", N=2, mode="time", dense=True, budget=b))
    for mode in ("time", "slice", "index"):
        out.append(dict(id="%s-after-events-euler-N2" % ("time-lookup" if mode == "time" else mode), family="euler", N=2, mode=mode, dense=False, events=True, budget=b))
    out.append(dict(id="time-lookup-dense-continued-tol-change-euler-N2", family="euler", N=2, mode="time", dense=True, cont=True, tol_change=True, budget=b))
    out.append(dict(id="time-lookup-continued-euler-N2", family="euler", N=2, mode="time", dense=False, cont=True, budget=b))
    # the run is recorded in three legs whose lengths are not multiples of the step: the landing steps of the first two are interior rows
    for mode in ("time", "slice"):
        out.append(dict(id="%s-three-legs-euler-N6" % ("time-lookup" if mode == "time" else mode), family="euler", N=6, mode=mode, dense=False, legs=3,
                        budget=dict(b, max_paths=6000)))
    # a step callback looks the trajectory up by time / slices it WHILE the run is in progress (monitoring code): what it sees is the part
    # recorded so far, and the lookups made after the run answer from the complete trajectory
    for mode in ("time", "slice"):
        out.append(dict(id="%s-after-lookups-in-callback-euler-N3" % ("time-lookup" if mode == "time" else mode), family="euler", N=3, mode=mode, dense=False,
                        cb_lookups=True, budget=b))
    # dense run stopped by a terminal event located in its second examined step (the overshooting step is rolled back and re-taken up to the event)
    out.append(dict(id="time-lookup-dense-after-terminal-event-euler-N2", family="euler", N=2, mode="time", dense=True, terminal_event=True, budget=b))
    # the run goes AGAINST the direction of the constructor's (t0, tf) span: integrate(T) with T on the other side of t0
    for mode in ("time", "slice", "index"):
        out.append(dict(id="%s-against-span-euler-N2" % mode, family="euler", N=2, mode=mode, dense=False, against=True, budget=b))
    out.append(dict(id="time-against-span-dense-euler-N2", family="euler", N=2, mode="time", dense=True, against=True, budget=b))
    return out


def _eqv(c, a, b):
    fa, fb = flat(c, a), flat(c, b)
    return len(fa) == len(fb) and c.all([c.eq(u, v) for u, v in zip(fa, fb)])


def scenario(c, inst):
    t0, tf, dt0 = c.real("t0"), c.real("tf"), c.real("dt0")
    span, adt = spans.input_assumptions(c, inst, t0, tf, dt0)
    kind = spans.FAMILIES[inst["family"]][2]
    st, built = run(spans.build_system, c, inst, t0, tf, dt0, inst.get("dense", False))
    if st != "ok":
        c.check("c19.constructs", False, info=repr(built))
        return
    a, rhs, log = built
    cap = inst["N"] + 3
    with spans.stubs_for(c, inst, log["root"]):
        if inst.get("cont"):
            T1 = c.real("T1")
            c.assume(absval(c, T1 - t0) <= inst["N"] * adt)
            c.assume(absval(c, T1 - t0) >= 1.0 / 64)
            c.assume((T1 - t0) * (tf - T1) > 0)      # T1 strictly between: a genuine continuation
            st, r = run(a.integrate, T1, callback=spans.cap_callback(c, cap, kind))
            if st != "ok":
                return      # failures are C12's subject
            if inst.get("tol_change"):
                # a setting is changed between the two legs (tolerances: irrelevant for a fixed-step method's grid): what was recorded
                # and interpolated so far stays
                a.rtol = 1e-5
                a.atol = 1e-7
            c.assume(absval(c, tf - T1) <= inst["N"] * absval(c, a.dt))
        if inst.get("legs"):
            # legs of one full step plus a landing step each (the working step is never longer than the distance to a target)
            cur = t0
            for k in range(inst["legs"] - 1):
                Tk = c.real("Tleg%d" % k)
                c.assume((Tk - cur) * (tf - Tk) > 0)
                c.assume(absval(c, Tk - cur) > adt)
                c.assume(absval(c, Tk - cur) < 2 * adt)
                st, r = run(a.integrate, Tk, callback=spans.cap_callback(c, cap, kind))
                if st != "ok":
                    return
                cur = Tk
            c.assume(absval(c, tf - cur) > adt)
            c.assume(absval(c, tf - cur) < 2 * adt)
        if inst.get("against"):
            Tr = c.real("Trev")
            c.assume((Tr - t0) * (tf - t0) < 0)
            c.assume(absval(c, Tr - t0) <= inst["N"] * adt)
            c.assume(absval(c, Tr - t0) >= 1.0 / 64)
            st, r = run(a.integrate, Tr, callback=spans.cap_callback(c, cap + 2, kind))
        elif inst.get("events"):
            # the run monitored an event function (that never fired): integrate keeps step interpolants for the detector even when
            # dense output is off - lookups must not depend on such leftovers
            import desolver.differential_system as ds
            from .common import patched
            from .events_common import Ev

            def no_events(sol_tuple, events, consts, direction, is_terminal, attributes):
                sol_tuple[0](sol_tuple[1] + 0.5 * (sol_tuple[2] - sol_tuple[1]))
                return np.array([], dtype=np.int64), c.array([]), False, []
            with patched(ds, "handle_events", no_events):
                st, r = run(a.integrate, events=[Ev("e0")], callback=spans.cap_callback(c, cap + 2, kind))
        elif inst.get("terminal_event"):
            import desolver.differential_system as ds
            from .common import patched
            from .events_common import Ev
            seen_calls = [0]
            tev = Ev("e0")
            tev.is_terminal = True

            def terminal_in_second_step(sol_tuple, events, consts, direction, is_terminal, attributes):
                seen_calls[0] += 1
                sol, t_prev, t_next = sol_tuple
                if seen_calls[0] == 2:
                    lam = c.real("evpos")
                    c.assume(lam > 0)
                    c.assume(lam < 1)
                    return np.array([0], dtype=np.int64), c.array([t_prev + lam * (t_next - t_prev)]), True, [events[0]]
                return np.array([], dtype=np.int64), c.array([]), False, []
            with patched(ds, "handle_events", terminal_in_second_step):
                st, r = run(a.integrate, events=[tev], callback=spans.cap_callback(c, cap + 4, kind))
        elif inst.get("cb_lookups"):
            qcb = c.real("q_cb")
            c.assume(qcb <= 128)
            c.assume(qcb >= -128)
            seen = []

            def lookups(system):
                Tn = list(system.t)
                r1 = system[qcb]
                r2 = system[Tn[0]:Tn[-1]]
                seen.append((Tn, r1.t, len(r2.t)))
            st, r = run(a.integrate, callback=[spans.cap_callback(c, cap + 2, kind), lookups])
            if st == "ok":
                c.check("c19.lookups_during_the_run_answer_from_the_rows_recorded_so_far",
                        c.all([c.all([c.any([c.eq(rt, tk) for tk in Tn])] + [c.le(absval(c, rt - qcb), absval(c, tk - qcb), 1) for tk in Tn] + [nsl == len(Tn)])
                               for (Tn, rt, nsl) in seen]), info=dict(steps=len(seen)))
        else:
            st, r = run(a.integrate, callback=spans.cap_callback(c, cap + 2, kind))
    if st != "ok":
        if inst.get("events") or inst.get("terminal_event"):
            from .events_common import oracle_interface_mismatch
            oracle_interface_mismatch(getattr(r, "__cause__", None))      # (the stub no longer fits handle_events' interface: inconclusive)
        return
    T = list(a.t)
    Y = [a.y[i] for i in range(len(T))]
    n = len(T)
    c.note("n_rows", n)
    mode = inst["mode"]
    if mode == "index":
        c.check("c19.len", len(a) == n)
        for i in range(-n - 2, n + 3):
            st, r = run(a.__getitem__, i)
            if -n <= i < n:
                ok = st == "ok" and _eqv(c, [r.t], [T[i]]) and _eqv(c, r.y, Y[i])
                c.check("c19.int_index_in_range", ok, info=dict(i=i, n=n, got=repr(r)[:80] if st != "ok" else None))
            else:
                c.check("c19.int_index_out_of_range_raises_IndexError", st == "exc" and isinstance(r, IndexError), info=dict(i=i, n=n))
            # integers that are not the builtin int (what np.argmax, np.searchsorted, a loop over np.arange hand over) are integer indices too
            for ityp in (np.int64, np.int32, np.intp, np.uint8):
                if i < 0 and ityp is np.uint8:
                    continue
                st, r = run(a.__getitem__, ityp(i))
                if -n <= i < n:
                    ok = st == "ok" and _eqv(c, [r.t], [T[i]]) and _eqv(c, r.y, Y[i])
                    c.check("c19.numpy_integer_index_in_range", ok, info=dict(i=i, n=n, type=ityp.__name__, got=repr(r)[:80] if st != "ok" else None))
                else:
                    c.check("c19.numpy_integer_index_out_of_range_raises_IndexError", st == "exc" and isinstance(r, IndexError), info=dict(i=i, n=n, type=ityp.__name__))
        rows = []
        it = iter(a)
        for _ in range(n + 3):
            try:
                rows.append(next(it))
            except StopIteration:
                break
            except Exception as e:
                c.check("c19.iteration_ends_cleanly", False, info=repr(e))
                return
        c.check("c19.iteration_yields_each_row_once_in_order",
                len(rows) == n and c.all([c.all([_eqv(c, [rows[i].t], [T[i]]), _eqv(c, rows[i].y, Y[i])]) for i in range(min(n, len(rows)))]))
        return
    if mode == "time":
        q = c.real("q")
        c.assume(q <= 128)
        c.assume(q >= -128)
        st, r = run(a.__getitem__, q)
        if st != "ok":
            c.check("c19.time_lookup_returns", False, info=repr(r))
            return
        if inst.get("dense"):
            # at every recorded time the dense lookup returns the recorded state (an oracle independent of the dense output itself)
            at_nodes = []
            for k_ in range(n):
                stn, rn = run(a.__getitem__, T[k_] + 0.0 * q)
                at_nodes.append(stn == "ok" and _eqv(c, rn.y, Y[k_]))
            c.check("c19.dense_lookup_at_recorded_times_returns_recorded_states", c.all(at_nodes), info=dict(n=n))
            c.check("c19.dense_lookup_time_is_query", c.eq(r.t, q))
            lo_ok = (q - T[0]) * (T[-1] - q) >= 0
            if c.symbolic:
                inside = bool(lo_ok)
            else:
                inside = bool(lo_ok)
            if inside:
                st2, want = run(a.sol, q)
                c.check("c19.dense_lookup_is_dense_solution", st2 == "ok" and _eqv(c, r.y, want))
            return
        is_sample = c.any([c.all([c.eq(r.t, T[k]), _eqv(c, r.y, Y[k])]) for k in range(n)])
        c.check("c19.time_lookup_returns_a_recorded_sample", is_sample)
        d = absval(c, r.t - q)
        c.check("c19.time_lookup_returns_nearest_sample", c.all([c.le(d, absval(c, T[k] - q), 1) for k in range(n)]), info=dict(n=n))
        return
    if mode == "slice":
        for name, sl in (("c19.slice_first_to_last_is_whole_run", slice(T[0], T[-1])), ("c19.slice_open_start", slice(None, T[-1])),
                         ("c19.slice_open_stop", slice(T[0], None))):
            st, r = run(a.__getitem__, sl)
            ok = st == "ok" and len(r.t) == n and c.all([_eqv(c, [r.t[i]], [T[i]]) for i in range(n)]) and \
                c.all([_eqv(c, r.y[i], Y[i]) for i in range(n)]) if st == "ok" and len(r.t) == n else False
            c.check(name, ok, info=dict(n=n, got=len(r.t) if st == "ok" else repr(r)))
