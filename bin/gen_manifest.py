#!/usr/bin/env python3
"""Regenerates /verif/MANIFEST.json from the table below (developer tool; MANIFEST.json is the committed artefact)."""
import json
import os

VERIF = os.path.dirname(os.path.dirname(os.path.abspath(__file__)))

TECH = ("bounded symbolic execution of the real desolver source on polynomial-normal-form symbolic reals "
        "(numpy object arrays) with z3 deciding every path condition and assertion; counterexamples replayed on the float64 code")

NOTE_COMMON = ("Arithmetic over the reals, not IEEE-754 (rounding/overflow/dtype outside the claim); bounded (see evidence 'bounds'); "
               "harness-process shims listed in evidence 'assumptions'; solver 'unknown' or a killed worker is reported inconclusive, never success.")

def _entry(category, text, ref, note_extra=""):
    return dict(category=category, text=text, design_ref=ref, note=NOTE_COMMON + (" " + note_extra if note_extra else ""))


CHECKS = {
    "C01": _entry("other",
        "Order conditions are computed by the real stage loop: for every rooted tree up to the declared order (quick: <= 7) the polynomial tree "
        "system is integrated for one symbolic step h by the real integrator __call__ of every shipped class (explicit, implicit via exact Picard roots "
        "of the real algebraic_system, splitting schemes on bicoloured trees, Richardson wrappers with 2..5 levels) and z3 decides for all h that the "
        "root component equals h^n/gamma(tau) within 2^-23 relative; embedded rows and the c column are checked the same way. Bounded by tree order; "
        "universal over h.", "DESIGN.md 3/C01",
        "Butcher's theorem and the local->global convergence theorem are the trusted mathematical base; RadauIIA19 orders 11..19 via simplifying assumptions B,C,D."),
    "C02": _entry("other",
        "Every RK/splitting class is executed symbolically on (t, h != 0 of either sign, y) with a right-hand side returning fresh symbols per call; per call z3 decides "
        "that the i-th stage is evaluated at (t + c_i h, y + h sum a_ij K_j), the increment is h sum b_i K_i, stage_values hold K, two consecutive calls; splitting "
        "schemes: the stated drift/kick composition; implicit: the real algebraic_system equals K - f(...), the accepted increment is that of the returned root and "
        "a step is never accepted unless the last stage solve reported success and prec < tol (else FailedToMeetTolerances after 64 retries).", "DESIGN.md 3/C02",
        "optimizer.nonlinear_roots replaced by the verdict_root contract stub; embedded pairs use the ctrl stub."),
    "C03": _entry("other",
        "OdeSystem.__init__/integrate run symbolically with t0, tf, dt0 and later targets as arbitrary reals (any sign, either direction, dt larger or smaller than the span); "
        "all feasible paths within N steps: first row (t0,y0), paired rows, strictly monotone toward the target, no overshoot, ends within 64 eps*scale of the target, "
        "status completed, termination within the step bound; one call and sequences of integrate(t) calls incl. reversal and already-there.", "DESIGN.md 3/C03",
        "|tf-t0| <= N*|dt0| with N = 3 (quick) / 5 (thorough)."),
    "C04": _entry("other",
        "Same symbolic runs restricted to |dt0| <= span: every recorded step but the last has magnitude |dt0| and none is longer (implicit: shorter only after a failed stage solve); "
        "product runs in one path: span shifted by a symbolic constant and the time-reflected problem integrated backward give term-identical states (autonomous congruent rhs).",
        "DESIGN.md 3/C04", "Known finding c04.implicit_step_growth is reported as KNOWN-FINDING."),
    "C05": _entry("other",
        "Partial claim (second sentence): the real retry loop with h of either sign - every retry strictly smaller and same sign, result is the last attempt, all-reject raises "
        "FailedToMeetTolerances (FailedIntegration through OdeSystem, no row recorded); the REAL update_timestep / implicit_aware_update_timestep decided in isolation with "
        "axiomatised pow/arctan: corr in (0.2, 2.6), redo <=> corr < 0.81, accept => scaled error <= 1, error >= 4 => redo; Richardson re-entry shrinks and terminates.",
        "DESIGN.md 3/C05", "First sentence (global error proportional to tolerances) is NOT claimed: not solver-decidable with a useful bound."),
    "C06": _entry("other",
        "With dense output on, t0, tf, dt0 and a query q symbolic: sol(t_i) = y_i; the piece chosen by find_interval and find_interval_vec contains q for every q in the integrated "
        "range, both directions; pieces contiguous in step order with end values = recorded states and end slopes = f at the recorded states (congruent uninterpreted rhs: stale "
        "slopes are caught); continuation in a second call; Richardson pieces cover the step.", "DESIGN.md 3/C06", "O(h^4) interpolation error bound is outside the claim."),
    "C11": _entry("other",
        "For all 16 implicit classes, R = P/Q built at run time from the exact rational values of the float64 tableau entries: z3 proves |R(z)|^2 <= 1+1e-9 and det(I - zA) != 0 for ALL z "
        "with Re z <= 0 (two-variable queries for <= 3 stages; Hermite-Biehler interlacing certificate + axis bound + maximum modulus for every class incl. RadauIIA19); the real "
        "RungeKuttaIntegrator.step on y'=lambda*y, a 2x2 rotation block and a diagonal pair with the exact-root stub satisfies Q(z)(y+dY) = P(z)y.", "DESIGN.md 3/C11",
        "Slack 1e-9 on |R|^2 (rounded coefficients). Trusted base for RadauIIA19: Hermite-Biehler theorem, maximum-modulus principle."),
    "C12": _entry("fault_enumeration",
        "Crash points enumerated exhaustively within the bound (every rhs-evaluation index / callback invocation of runs of <= N steps, three exception kinds, 5 method families), "
        "each instance universal over t0, tf, dt0: FailedIntegration with the injected cause (KeyboardInterrupt as itself), status, recorded rows = prefix of the fault-free twin run, "
        "dense output one piece per recorded step, resume reaches tf with the prefix intact and pieces equal to the uninterrupted run, reset() restores a pristine system.",
        "DESIGN.md 3/C12", "N = 2 (quick) / 3 + two successive faults (thorough). Event-function faults are exercised in the C07-C09 harness."),
    "C13": _entry("other",
        "All operation sequences up to the length bound over {integrate, integrate(T), set dt/tol/method, set_kick_vars, integrate with an event, faulting integrate, reset} with symbolic "
        "arguments: integrate() at the target is a no-op; reset() restores (t0,y0), no events, empty dense output, dt0, nfev 0, status 0 and the next run (rows and dense pieces) is "
        "term-identical to a fresh system's; caller's y0/constants untouched; split runs keep the rows before the split.", "DESIGN.md 3/C13",
        "bit-for-bit is decided as term identity over R; adaptive 'within tolerance' not claimed."),
    "C17": _entry("other",
        "For every array length up to the bound, every strictly increasing real array and every real query (scalar and vector), z3 shows on every feasible path of the real "
        "search_bisection/search_bisection_vec that the returned index is the first element >= query (clipped) and that both agree; CubicHermiteInterp is exact (value and gradient) "
        "on the general cubic with symbolic coefficients, interval of either orientation, symbolic evaluation point, scalar and array data.", "DESIGN.md 3/C17",
        "Array lengths <= 6 (quick) / 7 (thorough); vector queries <= 2 / 3."),
    "C19": _entry("other",
        "On symbolic trajectories (forward, backward, continued, ctrl-adaptive): every integer index in [-len-2, len+2] has sequence semantics, iteration yields each row once in order, "
        "a lookup at an arbitrary real time returns a recorded sample nearest in time (dense: (q, sol(q))), a slice spanning the run returns the run.", "DESIGN.md 3/C19"),
    "C20": _entry("other",
        "Independent counters inside the user rhs / Jacobian: on every feasible path of explicit, FSAL+rejection, splitting, implicit (user Jacobian and real finite-difference "
        "JacobianWrapper) runs nfev equals the completed user calls at every callback and at the end, also after faults and reset; callbacks in the given order, after the new row "
        "is visible, once per recorded step; a dt assigned by a callback is the magnitude of the next attempted step.", "DESIGN.md 3/C20"),
}

NOT_APPLICABLE = [
    dict(property_id="C15", reason=("double-precision path is compiled MINPACK (not symbolically executable; a contract stub would assume the property); "
                                    "the pure-Python fall-backs (hybrj/newtontrustregion) defeat z3 even at n=1 with one iteration (norm/quotient chains, "
                                    "nlsat ignores its timeout) - see DESIGN.md C15; the consumer side (implicit step accepted iff success and prec<tol) is covered by C02")),
]

PENDING_REASON = "check not built yet in this revision (construction order in DESIGN.md section 5); will be claimed when its harness lands"


def main():
    props = [json.loads(l)["id"] for l in open(os.path.join(VERIF, "properties.jsonl"))]
    checks = []
    for pid in props:
        if pid not in CHECKS:
            continue
        c = CHECKS[pid]
        checks.append(dict(
            property_id=pid,
            quick_cmd="bin/check %s --tier quick" % pid,
            thorough_cmd="bin/check %s --tier thorough" % pid,
            evidence_file="/verif/evidence/%s.json" % pid,
            replay_cmd_template="bin/check %s --replay {path}" % pid,
            engine="srx",
            level_claimed=dict(category=c["category"], text=c["text"], design_ref=c["design_ref"]),
            level_note=c["note"],
            technique=c.get("technique", TECH),
        ))
    na = list(NOT_APPLICABLE)
    claimed = set(CHECKS) | {n["property_id"] for n in na}
    for pid in props:
        if pid not in claimed:
            na.append(dict(property_id=pid, reason=PENDING_REASON))
    man = dict(
        version=1,
        setup_cmd="bin/ensure_env.sh",
        hooks=dict(guard="DESOLVER_VERIF", enable="no source hooks are needed: stubs are installed by the harness process at module level; bin/check exports DESOLVER_VERIF=1 (unused by /repo)",
                   baseline_off_cmd="cd /repo && /venv/bin/python -m pytest -ra -q -p no:cacheprovider --timeout=900 --continue-on-collection-errors",
                   source_commits=[], add_only=True),
        engines=[dict(name="srx", path="/verif/srx", serves_properties=sorted(CHECKS),
                      kind_free_text="symbolic-real execution of the imported /repo source (object arrays of polynomial normal forms) + z3 5.1; per-path SMT queries; float64 replay")],
        checks=checks,
        not_applicable=na,
        notes="See DESIGN.md. KNOWN_FINDINGS.txt lists genuine defects recorded rather than repaired; fix: commits in /repo are listed there as 'fixed:' lines.",
    )
    with open(os.path.join(VERIF, "MANIFEST.json"), "w") as f:
        json.dump(man, f, indent=1)
    print("wrote MANIFEST.json with", len(checks), "checks;", len(na), "not_applicable")


if __name__ == "__main__":
    main()
