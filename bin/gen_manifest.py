#!/usr/bin/env python3
"""Regenerates /verif/MANIFEST.json from the table below (developer tool; MANIFEST.json is the committed artefact)."""
import json
import os

VERIF = os.path.dirname(os.path.dirname(os.path.abspath(__file__)))

TECH = ("bounded symbolic execution of the real desolver source on polynomial-normal-form symbolic reals "
        "(numpy object arrays) with z3 deciding every path condition and assertion; counterexamples replayed on the float64 code; "
        "a value the code converts with float() is pinned to the path's model (concolic fallback, reported as incomplete coverage)")

NOTE_COMMON = ("Arithmetic over the reals, not IEEE-754 (rounding/overflow/dtype outside the claim); bounded (see evidence 'bounds'); "
               "harness-process shims listed in evidence 'assumptions'; solver 'unknown' or a killed worker is reported inconclusive, never success.")

def _entry(category, text, ref, note_extra=""):
    return dict(category=category, text=text, design_ref=ref, note=NOTE_COMMON + (" " + note_extra if note_extra else ""))


CHECKS = {
    "C01": _entry("other",
        "Order conditions are computed by the real stage loop: for every rooted tree up to the declared order (quick: <= 7) the polynomial tree "
        "system is integrated for one symbolic step h by the real integrator __call__ of every shipped class (explicit, implicit via exact Picard roots "
        "of the real algebraic_system, splitting schemes on bicoloured trees, Richardson wrappers with 2..5 levels) and z3 decides for all h that the "
        "root component equals h^n/gamma(tau) within 2^-23 relative; embedded rows and the c column are checked the same way; 'warm' instances repeat the low-order trees on an integrator "
        "object that has just stepped a different equation ending where the step starts, Richardson wrappers are also assessed on the SECOND step one wrapper object takes, low-order conditions are asserted to 2^-40 on integrators built after float16/float32 integrators of the same scheme, '2d-layout' instances store the state of the splitting schemes as a (2, n) matrix. Bounded by tree order; "
        "universal over h.", "DESIGN.md 3/C01",
        "Butcher's theorem and the local->global convergence theorem are the trusted mathematical base; RadauIIA19 orders 11..19 via simplifying assumptions B,C,D."),
    "C02": _entry("other",
        "Every RK/splitting class is executed symbolically on (t, h != 0 of either sign, y). Explicit classes: congruent uninterpreted rhs, the oracle evaluates f itself at the defining "
        "stage points: stored slope K_i = f(t + c_i h, y + h sum a_ij K_j), increment = h sum b_i K_i (independent of how many evaluations are made; a stale cached slope is a different "
        "symbol); histories: consecutive calls, a call whose first trial is rejected and whose retry is interrupted by a fault, then repeated, and an attempt during which the rhs RETURNED NaN "
        "(rejected, then retried / called again on the same object: nothing non-finite may leak into the next attempt). Splitting schemes: the stated drift/kick "
        "composition; implicit: the real algebraic_system equals K - f(...), the accepted increment is that of the returned root, the accepted step has the sign of h and is not longer, "
        "and a step is never accepted unless the last stage solve reported success and prec < tol (else FailedToMeetTolerances after 64 retries), where tol handed to the stage solver is asserted to be 0.5*(atol + rtol*max|y|) of the state THIS step starts from (also on a second call of the object from a state of another magnitude).", "DESIGN.md 3/C02, 6.4, 6.6",
        "optimizer.nonlinear_roots replaced by the verdict_root contract stub; embedded pairs use the ctrl stub."),
    "C03": _entry("other",
        "OdeSystem.__init__/integrate run symbolically with t0, tf, dt0 and later targets as arbitrary reals (any sign, either direction, dt larger or smaller than the span); "
        "all feasible paths within N steps: first row (t0,y0), paired rows, strictly monotone toward the target, no overshoot, ends within 64 eps*scale of the target, "
        "status completed, termination within the step bound, and every recorded row advances time AND state by the increment of the same accepted attempt (pairing); one call and "
        "sequences of integrate(t) calls incl. reversal and already-there; the same grid assertions on runs that monitor events (events oracle: rolled-back / re-recorded steps, buffer growth) and on runs in which a step callback assigns a longer working step after every step.", "DESIGN.md 3/C03",
        "|tf-t0| <= N*|dt0| with N = 3 (quick) / 5 (thorough)."),
    "C04": _entry("other",
        "Same symbolic runs restricted to |dt0| <= span: every recorded step but the last (of each call; one call and two consecutive calls) has magnitude |dt0| and none is longer, also when the second call turns round towards / onto / beyond the original start time "
        "(implicit: shorter only after a failed stage solve); "
        "product runs in one path: span shifted by a symbolic constant and the time-reflected problem integrated backward give term-identical states (autonomous congruent rhs).",
        "DESIGN.md 3/C04", "The former finding c04.implicit_step_growth (S18) was repaired by fix 82e5a77; no known finding is listed for C04."),
    "C05": _entry("other",
        "Partial claim (second sentence): the real retry loop with h of either sign - every retry strictly smaller and same sign, result is the last attempt, all-reject raises "
        "FailedToMeetTolerances (FailedIntegration through OdeSystem, no row recorded); through OdeSystem a recorded row is exactly the last (accepted) attempt from its start time; the REAL update_timestep / implicit_aware_update_timestep decided in isolation with "
        "axiomatised pow/arctan: corr in (0.2, 2.6), redo <=> corr < 0.81, accept => scaled error <= 1, error >= 4 => redo; two consecutive real __call__s with the real controller: a step "
        "accepted attempt (after an earlier step and after rejected attempts of the same call) meets the tolerance formed from its OWN data; tolerance flow: symbolic rtol/atol set through the "
        "constructor or the setters (before / after a first leg) reach the controller and the basis integrators of Richardson wrappers; Richardson re-entry shrinks and terminates; a wrapper around an adaptive base whose controller shortens the coarsest sub-step: every level of the extrapolation table covers the interval handed back (either sign); the controller of Richardson wrappers rejects a non-finite error estimate.",
        "DESIGN.md 3/C05", "First sentence (global error proportional to tolerances) is NOT claimed: not solver-decidable with a useful bound."),
    "C06": _entry("other",
        "With dense output on, t0, tf, dt0 and a query q symbolic: sol(t_i) = y_i; the piece chosen by find_interval and find_interval_vec contains q for every q in the integrated "
        "range, both directions; pieces contiguous in step order with end values = recorded states and end slopes = f at the recorded states (congruent uninterpreted rhs: stale "
        "slopes are caught); continuation in a second call; histories with non-terminal and terminal events (rolled-back step) and continuation after the stop through the real event "
        "section of integrate (events oracle, which like the real detector evaluates the dense output at scalar times inside the bracket; post-run queries newest first); constants replaced between two calls (every piece has the end slopes of the equation in force for its step); Richardson pieces cover the step.", "DESIGN.md 3/C06", "O(h^4) interpolation error bound is outside the claim."),
    "C07": _entry("other",
        "Assume/guarantee: (A) the REAL handle_events on a symbolic step of either direction with 1-3 affine event functions (symbolic slope and root, directions and terminal flags "
        "enumerated) and the root finder replaced by the bracket_root stub: every returned event had success, lies in the bracket within sqrt(eps)*|step| of the true root, crosses in a "
        "requested direction, list sorted along the integration direction and cut after the first terminal event; (B) the REAL event section of integrate with an events oracle "
        "constrained only by (A): every recorded event was reported, lies inside its step, its state is that step's interpolant at the event time, events are in integration order "
        "and no crossing is recorded twice - also not a crossing on the boundary between two integrate(events=...) calls; (A) also on a REAL DenseOutput holding several real Hermite pieces inside the step (kinked trajectory, preceded by the piece of an earlier step); (B) also on the way BACK over times covered before (forward leg, then integrate(t0, events=...)): every step is examined on its own interpolant; end-to-end with the REAL detector and root finder: a shallow event (|slope| 1e-6) crossing within 1e-9 of the boundary between two steps is reported once, at its root.", "DESIGN.md 3/C07-C09, 6.6", "Root location itself is C14; distance to a root of the exact trajectory is outside."),
    "C08": _entry("other",
        "(A) REAL handle_events with an exactly located, strictly interior crossing in a requested direction: the event IS returned for every scale 2^-20..2^20, direction of integration and "
        "number of events unless an earlier terminal event cuts the list, also on a multi-piece real DenseOutput; (B) REAL integrate with the events oracle: every detector report that is not a repeat of the same event "
        "within eps^0.7 is recorded - true_positive filter, duplicate filter (events never merged) and interpolant pruning with dense_output=False, both directions; (C) bit-precise end of the "
        "detector is handed the interpolant of the step under examination (three steps with dense_output=False); after a detector fault and a repeated integrate() every recorded step was examined; REAL detector, two calls, the event reads its level from the constants, which are replaced between the calls: the crossing at the new level is reported; (C) bit-precise end of the "
        "chain: the QF_FP witnesses of C14's lemma (adjacent floats bracketing a steep time event, x in +-(0.5,2), +-(4,8), +-(64,128)) are given to the REAL handle_events + brentsrootvec in both directions: the event is reported.",
        "DESIGN.md 3/C07-C09", "End-to-end completeness additionally needs the root-finder guarantee of C14 (known finding c14.absolute_residual_success)."),
    "C09": _entry("other",
        "(A) REAL handle_events with >= 2 events, at least one terminal: only events up to the first terminal one along the direction of integration are returned, the list ends at "
        "the EARLIEST located terminal crossing; (B) REAL integrate with the events oracle and mixes of terminal/non-terminal events, both directions, finite and infinite tf: last time = terminal root, nothing beyond, strictly "
        "monotone rows, last reported event is the terminal one, no detector call afterwards, status terminated-by-event = success, callbacks once per outer step; dense output one "
        "piece per recorded step, contiguous from t0 to the root with end slopes = f at recorded states; a following integrate() continues monotonically to tf, and a following integrate(events=...) records every detected crossing once and stops again at the next terminal one; tf = +inf and tf = -inf; detector-fault histories (the event search raises, integrate() is called again: the terminal event is still honoured).",
        "DESIGN.md 3/C07-C09"),
    "C10": _entry("other",
        "Hamiltonian uninterpreted: the real ExplicitSymplecticIntegrator.__call__ on dual numbers with a right-hand side of arbitrary separable Hamiltonian structure: whole-step "
        "M^T J M = J as a polynomial identity and per-stage form (each stage factor symplectic, real update has the drift/kick form) for 1-2 d.o.f.; step(h);step(-h) = identity with "
        "congruent T'(p), V'(q) on fresh integrators AND on one integrator object through two round trips from different states, also after a step on that object was abandoned by an rhs exception at its k-th evaluation (the step map must not depend on the object's history); kick masks by default, constructor and set_kick_vars, a matrix-shaped state (one row (q_i, p_i) per particle) with a mask varying along the trailing axis, and a default-mask integrator built AFTER a custom-mask one of the same shape; implicit symplectic classes: b_i a_ij + b_j a_ji = b_i b_j, symmetry, R(z)R(-z) = 1, real step "
        "= R on the rotation block.", "DESIGN.md 3/C10", "Closure of the symplectic group and the Sanz-Serna/Lasagni tableau condition are the trusted mathematical base; energy drift is a consequence, not decided."),
    "C11": _entry("other",
        "For all 16 implicit classes, R = P/Q built at run time from the exact rational values of the float64 tableau entries: z3 proves |R(z)|^2 <= 1+1e-9 and det(I - zA) != 0 for ALL z "
        "with Re z <= 0 (two-variable queries for <= 3 stages; Hermite-Biehler interlacing certificate + axis bound + maximum modulus for every class incl. RadauIIA19); the real "
        "RungeKuttaIntegrator.step on y'=lambda*y, a 2x2 rotation block and a diagonal pair with the exact-root stub satisfies Q(z)(y+dY) = P(z)y; the full __call__ with a failed "
        "first stage solve and an exactly solved retry keeps the direction of h and does not increase |y|; two consecutive calls with the decay rate changed through the constants, or with another step size on the same object: the second step is R(z_new).", "DESIGN.md 3/C11",
        "Slack 1e-9 on |R|^2 (rounded coefficients). Trusted base for RadauIIA19: Hermite-Biehler theorem, maximum-modulus principle."),
    "C12": _entry("fault_enumeration",
        "Crash points enumerated exhaustively within the bound (every rhs-evaluation index / callback invocation / event-function evaluation of runs of <= N steps, four exception "
        "kinds, 5 method families), "
        "each instance universal over t0, tf, dt0: FailedIntegration with the injected cause (KeyboardInterrupt as itself), status, recorded rows = prefix of the fault-free twin run, "
        "dense output one piece per recorded step, resume reaches tf with the prefix intact, every piece of the resumed run has end slopes f(recorded state) (all families) and equals the uninterrupted run's (fixed step), "
        "reset() restores a pristine system; value faults (rhs returns NaN, then reset and re-run equals a fresh run) and a diverging stage solve (the call recovers by retrying or a second integrate() continues to the target); a failure while a step is re-taken up to a terminal event (the error's direct cause is the injected exception, events beyond the recorded rows are dropped, the working step is restored); a KeyboardInterrupt raised by an event function inside the real handle_events; a QF_FP corner for Richardson wrappers (half steps that do not land on fl(t+h)) is run on the real float64 code.",
        "DESIGN.md 3/C12", "N = 2 (quick) / 3 + two successive faults (thorough). Event-function faults run the real handle_events with the root finder stubbed. Known finding c12.valueerror_swallowed_by_retry."),
    "C13": _entry("other",
        "All operation sequences up to the length bound over {integrate, integrate(T), set dt/tol/method, set_kick_vars, integrate with an event, faulting integrate, reset} with symbolic "
        "arguments: integrate() at the target is a no-op; reset() restores (t0,y0), no events, empty dense output, dt0, nfev 0, status 0 and the next run (rows and dense pieces) is "
        "term-identical to a fresh system's (histories with events re-run WITH the same event function: recorded events equal the fresh system's, with and WITHOUT dense output, the detector reporting in the 1st/2nd/3rd examined step, the run before the reset on another step size); integrate(T) with T within the arrival tolerance (32 eps) of the current time changes nothing; caller's y0/constants untouched; an entry written into the constants of another system built without constants does not reach this one; an implicit scheme WITHOUT a user Jacobian (real finite-difference wrapper, stage solver a congruent function of the residual and Jacobian it is handed) with the constants replaced before the reset; split runs keep the rows before the split.", "DESIGN.md 3/C13, 6.6",
        "bit-for-bit is decided as term identity over R; adaptive 'within tolerance' not claimed."),
    "C17": _entry("other",
        "For every array length up to the bound, every strictly increasing real array and every real query (scalar and vector), z3 shows on every feasible path of the real "
        "search_bisection/search_bisection_vec that the returned index is the first element >= query (clipped) and that both agree; CubicHermiteInterp is exact (value and gradient) "
        "on the general cubic with symbolic coefficients, interval of either orientation, symbolic evaluation point (inside and outside the interval), scalar, vector and matrix-valued data (incl. leading dimension 4); integer-typed knots; the caller re-uses the arrays it passed in AND writes into the arrays the piece returned: all values are reproduced afterwards; the scalar search on a container that was searched, refilled in place and is searched again.", "DESIGN.md 3/C17",
        "Array lengths <= 6 (quick) / 7 (thorough); vector queries <= 2 / 3."),
    "C14": _entry("other",
        "For every feasible path of the real brentsroot and brentsrootvec (1-3 components) under the unwinding assumption |b-a| <= 2^k*tol, z3 shows for ALL real brackets (either order), "
        "tolerances in [4*eps64, 1e-3] (plus None and below-floor) and function parameters of the families linear s*(x-r) (s = +-1e-6..1e9 concrete and symbolic; root inside/outside/at an "
        "end) and jump (-u | +v): the returned point lies in the closed bracket or no success is claimed; a bracketed sign change is located to within tol and success is reported; "
        "a root exactly on a bracket end is found and reported; success implies |f| <= tol or a sign change within tol; no sign change and |f| > tol at both ends implies no success; the loop never reaches the iteration cap; vector and "
        "scalar solver agree whenever f(a)f(b) < 0; WIDE brackets of concrete width 2^K*tol (K up to 66 quick / 72 thorough, default tolerance, unit jump at a symbolic position inside a window of tol/8 at several places of the bracket) run the ~K halvings: located, certified, left by convergence.  A bit-precise QF_FP corner picks a linear function and a bracket whose end values are finite while their product overflows float16/float32 (inf/inf interpolants): the REAL solvers run on it in that dtype, both bracket orders; the caller's per-component bracket arrays come back unmodified.  A bit-precise QF_FP lemma exhibits adjacent floats (x in +-(0.5,2), +-(4,8), +-(64,128)) bracketing a sign change with both residuals above tol and the real brentsroot AND brentsrootvec are run on it.",
        "DESIGN.md 3/C14", "k = 4/3 halvings (quick), 8/7 (thorough); vector lengths 1..3; two-root quadratics thorough-only (may end inconclusive). Known findings: "
        "c14.absolute_residual_success (flat functions, literal reading), c14.vec_unbracketed_result."),
    "C16": _entry("other",
        "Real JacobianWrapper (adaptive and fixed Richardson depth, flat both ways, base order 2/4/5) on affine maps with symbolic A, f(y), y (shapes scalar, (2,)->(2,), (3,)->(2,), "
        "(2,2)->(3,), the latter also with the state stored column-major) and polynomial maps of degree <= 4: entry [i...,j...] equals df_i/dy_j up to the rounding noise of the float64 stencil weights, shape (*shape f, *shape y); the "
        "real DiffRHS.jac under every history of <= 3 (quick) / 4 (thorough) operations over {jac at fresh symbolic (t,y), hook, unhook, rhs.jac=, set_jac_base_order, copy.copy of the wrapper (as OdeSystem does), a request during which the rhs raises}: attached user "
        "Jacobians are called once with the requested (t,y) and returned unchanged, otherwise the finite-difference result is for the requested t and state; njev counts answered requests.",
        "DESIGN.md 3/C16", "Accuracy on non-polynomial functions is outside."),
    "C18": _entry("other",
        "The real solve_ivp with symbolic t_span, first_step, max_step, t_eval entries (unsorted, repeated, with/without end points), y0 of shape (2,) and (2,2), args, methods by name "
        "and class, and in the same path the object API with the same settings: shapes, columns pair with times, first column y0, the k-th returned time is the k-th requested one in the order of integration (multiplicities kept, "
        "either direction) with columns equal to the object API's states at the requested times, args (tuples shorter than, and as long as, the rhs parameter list with defaults; rhs a function, a bound method or a callable object) bound positionally at every evaluation, no step above max_step, counters/status those of the system; t_eval together with dense_output=True.",
        "DESIGN.md 3/C18", "Parity with scipy.integrate.solve_ivp is not applicable to this technique (independent compiled numerics)."),
    "C19": _entry("other",
        "On symbolic trajectories (forward, backward, continued, ctrl-adaptive): every integer index in [-len-2, len+2] has sequence semantics, iteration yields each row once in order, "
        "a lookup at an arbitrary real time returns a recorded sample nearest in time (dense: (q, sol(q))), a slice spanning the run returns the run; also for runs AGAINST the "
        "direction of the constructor's span, for non-dense runs that monitored an event function, and after a step callback looked the trajectory up by time / sliced it at every step of the run (those lookups answer from the rows recorded so far), on a run recorded in three legs whose landing steps are interior rows, and on a dense run stopped by a terminal event; numpy integers (int64, int32, intp, uint8) are integer indices.", "DESIGN.md 3/C19"),
    "C20": _entry("other",
        "Independent counters inside the user rhs / Jacobian: on every feasible path of explicit, FSAL+rejection, splitting, implicit (user Jacobian and real finite-difference "
        "JacobianWrapper) runs nfev equals the completed user calls at every callback and at the end, also after faults and reset; callbacks in the given order, after the new row "
        "is visible, once per recorded step; a dt assigned by a callback is the magnitude of the next attempted step - also the first step of a continuation call after a short call (target nearer than the working step); a callback that removes itself from the caller's list during the run does not disturb the invocations of the call; njev is unchanged by unhook_jacobian_call; two systems built on ONE rhs callable and used alternately each count only their own calls / Jacobian requests; with events (oracle): callbacks once per outer step that recorded rows, each sees new rows, the last sees the final row.", "DESIGN.md 3/C20"),
}

NOT_APPLICABLE = [
    dict(property_id="C15", reason=("double-precision path is compiled MINPACK (not symbolically executable; a contract stub would assume the property); "
                                    "the pure-Python fall-backs (hybrj/newtontrustregion) defeat z3 even at n=1 with one iteration (norm/quotient chains, "
                                    "nlsat ignores its timeout) - see DESIGN.md C15; the consumer side (implicit step accepted iff success and prec<tol) is covered by C02")),
]

PENDING_REASON = "check not built yet in this revision (construction order in DESIGN.md section 5); will be claimed when its harness lands"


def main():
    props = [json.loads(l)["id"] for l in open(os.path.join(VERIF, "properties.jsonl"))]
    checks = []
    for pid in props:
        if pid not in CHECKS:
            continue
        c = CHECKS[pid]
        checks.append(dict(
            property_id=pid,
            quick_cmd="bin/check %s --tier quick" % pid,
            thorough_cmd="bin/check %s --tier thorough" % pid,
            evidence_file="/verif/evidence/%s.json" % pid,
            replay_cmd_template="bin/check %s --replay {path}" % pid,
            engine="srx",
            level_claimed=dict(category=c["category"], text=c["text"], design_ref=c["design_ref"]),
            level_note=c["note"],
            technique=c.get("technique", TECH),
        ))
    na = list(NOT_APPLICABLE)
    claimed = set(CHECKS) | {n["property_id"] for n in na}
    for pid in props:
        if pid not in claimed:
            na.append(dict(property_id=pid, reason=PENDING_REASON))
    man = dict(
        version=1,
        setup_cmd="bin/ensure_env.sh",
        hooks=dict(guard="DESOLVER_VERIF", enable="no source hooks are needed: stubs are installed by the harness process at module level; bin/check exports DESOLVER_VERIF=1 (unused by /repo)",
                   baseline_off_cmd="cd /repo && /venv/bin/python -m pytest -ra -q -p no:cacheprovider --timeout=900 --continue-on-collection-errors",
                   source_commits=[], add_only=True),
        engines=[dict(name="srx", path="/verif/srx", serves_properties=sorted(CHECKS),
                      kind_free_text="symbolic-real execution of the imported /repo source (object arrays of polynomial normal forms) + z3 5.1; per-path SMT queries; float64 replay")],
        checks=checks,
        not_applicable=na,
        notes="See DESIGN.md. KNOWN_FINDINGS.txt lists genuine defects recorded rather than repaired; fix: commits in /repo are listed there as 'fixed:' lines.",
    )
    with open(os.path.join(VERIF, "MANIFEST.json"), "w") as f:
        json.dump(man, f, indent=1)
    print("wrote MANIFEST.json with", len(checks), "checks;", len(na), "not_applicable")


if __name__ == "__main__":
    main()
