#!/usr/bin/env python3
"""Regenerates /verif/MANIFEST.json from the table below (developer tool; MANIFEST.json is the committed artefact)."""
import json
import os

VERIF = os.path.dirname(os.path.dirname(os.path.abspath(__file__)))

TECH = ("bounded symbolic execution of the real desolver source on polynomial-normal-form symbolic reals "
        "(numpy object arrays) with z3 deciding every path condition and assertion; counterexamples replayed on the float64 code")

NOTE_COMMON = ("Arithmetic over the reals, not IEEE-754 (rounding/overflow/dtype outside the claim); bounded (see evidence 'bounds'); "
               "harness-process shims listed in evidence 'assumptions'; solver 'unknown' or a killed worker is reported inconclusive, never success.")

CHECKS = {
    "C17": dict(
        category="other",
        text=("For every array length up to the bound, every strictly increasing real array and every real query (scalar and vector), "
              "z3 shows on every feasible path of the real search_bisection/search_bisection_vec that the returned index is the first "
              "element >= query (clipped) and that both agree; the real CubicHermiteInterp is shown exact (value and gradient) on the "
              "general cubic with symbolic coefficients, interval of either orientation, symbolic evaluation point, scalar and array data. "
              "Bounded exhaustive over paths, universal over real inputs per path - stronger than the grid enumeration in the property text."),
        design_ref="DESIGN.md section 3 / C17",
        note=NOTE_COMMON + " Array lengths <= 6 (quick) / 7 (thorough); vector queries <= 2 / 3."),
}

NOT_APPLICABLE = [
    dict(property_id="C15", reason=("double-precision path is compiled MINPACK (not symbolically executable; a contract stub would assume the property); "
                                    "the pure-Python fall-backs (hybrj/newtontrustregion) defeat z3 even at n=1 with one iteration (norm/quotient chains, "
                                    "nlsat ignores its timeout) - see DESIGN.md C15; the consumer side (implicit step accepted iff success and prec<tol) is covered by C02")),
]

PENDING_REASON = "check not built yet in this revision (construction order in DESIGN.md section 5); will be claimed when its harness lands"


def main():
    props = [json.loads(l)["id"] for l in open(os.path.join(VERIF, "properties.jsonl"))]
    checks = []
    for pid in props:
        if pid not in CHECKS:
            continue
        c = CHECKS[pid]
        checks.append(dict(
            property_id=pid,
            quick_cmd="bin/check %s --tier quick" % pid,
            thorough_cmd="bin/check %s --tier thorough" % pid,
            evidence_file="/verif/evidence/%s.json" % pid,
            replay_cmd_template="bin/check %s --replay {path}" % pid,
            engine="srx",
            level_claimed=dict(category=c["category"], text=c["text"], design_ref=c["design_ref"]),
            level_note=c["note"],
            technique=c.get("technique", TECH),
        ))
    na = list(NOT_APPLICABLE)
    claimed = set(CHECKS) | {n["property_id"] for n in na}
    for pid in props:
        if pid not in claimed:
            na.append(dict(property_id=pid, reason=PENDING_REASON))
    man = dict(
        version=1,
        setup_cmd="bin/ensure_env.sh",
        hooks=dict(guard="DESOLVER_VERIF", enable="no source hooks are needed: stubs are installed by the harness process at module level; bin/check exports DESOLVER_VERIF=1 (unused by /repo)",
                   baseline_off_cmd="cd /repo && /venv/bin/python -m pytest -ra -q -p no:cacheprovider --timeout=900 --continue-on-collection-errors",
                   source_commits=[], add_only=True),
        engines=[dict(name="srx", path="/verif/srx", serves_properties=sorted(CHECKS),
                      kind_free_text="symbolic-real execution of the imported /repo source (object arrays of polynomial normal forms) + z3 5.1; per-path SMT queries; float64 replay")],
        checks=checks,
        not_applicable=na,
        notes="See DESIGN.md. KNOWN_FINDINGS.txt lists genuine defects recorded rather than repaired; fix: commits in /repo are listed there as 'fixed:' lines.",
    )
    with open(os.path.join(VERIF, "MANIFEST.json"), "w") as f:
        json.dump(man, f, indent=1)
    print("wrote MANIFEST.json with", len(checks), "checks;", len(na), "not_applicable")


if __name__ == "__main__":
    main()
