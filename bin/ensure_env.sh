#!/bin/bash
# Idempotent, offline: overlay venv /verif/.venv on top of /venv with z3-solver (+cvc5, crosshair) from the wheelhouse.
set -e
VERIF="$(cd "$(dirname "$0")/.." && pwd)"
VENV="$VERIF/.venv"
exec 9>"$VERIF/.venv.lock"
flock 9
if [ -x "$VENV/bin/python" ] && "$VENV/bin/python" -c "import z3, numpy, autoray" 2>/dev/null; then
  exit 0
fi
rm -rf "$VENV"
/venv/bin/python -m venv "$VENV" >/dev/null
SP="$("$VENV/bin/python" -c 'import site; print(site.getsitepackages()[0])')"
echo "/venv/lib/python3.12/site-packages" > "$SP/zz_base_venv.pth"
PIP_NO_INDEX=1 "$VENV/bin/python" -m pip install -q --no-index --find-links /opt/veriftools/wheels z3-solver >/dev/null 2>&1
# optional extras (second solver / second engine); failure to install them is not fatal
PIP_NO_INDEX=1 "$VENV/bin/python" -m pip install -q --no-index --find-links /opt/veriftools/wheels cvc5 crosshair-tool >/dev/null 2>&1 || true
"$VENV/bin/python" -c "import z3, numpy, autoray"
