#!/bin/bash
# developer helper: run every claimed check of MANIFEST.json (tier $1, default quick) sequentially, print one summary line each
cd "$(dirname "$0")/.."
TIER="${1:-quick}"
for id in $(python3 -c "import json;print(' '.join(c['property_id'] for c in json.load(open('MANIFEST.json'))['checks']))"); do
  out=$(bin/check "$id" --tier "$TIER" 2>&1); rc=$?
  echo "rc=$rc $(echo "$out" | grep -E "^$id tier" | tail -1)"
  echo "$out" | grep -E "^(VIOLATION|KNOWN-FINDING)" | cut -c1-160
done
