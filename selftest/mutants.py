"""Seeded source mutants (text replacements) per property, and refactorings that must stay quiet."""
DS = "desolver/differential_system.py"
IT = "desolver/integrators/integrator_types.py"
RK = "desolver/integrators/components/runge_kutta_methods.py"
UT = "desolver/utilities/utilities.py"
IP = "desolver/utilities/interpolation.py"
EX = "desolver/integrators/explicit_integration_schemes.py"
IM = "desolver/integrators/implicit_integration_schemes.py"
OP = "desolver/utilities/optimizer.py"

MUTANTS = [
    # ---- C17
    dict(name="c17-bisect-ge-to-gt-equivalent", props=["C17"], expect="quiet", edits=[(UT, "        if (val >= array[jmid]):", "        if (val > array[jmid]):")]),
    dict(name="c17-bisect-final-adjust", props=["C17"], edits=[(UT, "        if array[jlower] < val:\n            jlower = jupper", "        if array[jlower] <= val:\n            jlower = jupper")]),
    dict(name="c17-vec-le-to-lt", props=["C17"], edits=[(UT, "        msk2 = val <= mid_vals", "        msk2 = val < mid_vals")]),
    dict(name="c17-hermite-h10", props=["C17"], edits=[(IP, "        h10 = t3 - 2 * t2 + t\n", "        h10 = t3 - 2 * t2 + t2\n")]),
    dict(name="c17-hermite-grad-h11", props=["C17"], edits=[(IP, "        h11 = t3 - t2\n\n        return h00 * self.p0 + h10 * self.trange * self.m0 + h01 * self.p1 + h11 * self.trange * self.m1\n\n    def __repr__",
                                                        "        h11 = t3 - 2 * t2\n\n        return h00 * self.p0 + h10 * self.trange * self.m0 + h01 * self.p1 + h11 * self.trange * self.m1\n\n    def __repr__")]),
    dict(name="c17-refactor-bisect-quiet", props=["C17"], expect="quiet", edits=[(UT, "        jmid = (jupper + jlower) // 2\n        if (val >= array[jmid]):", "        jmid = jlower + (jupper - jlower) // 2\n        if (array[jmid] <= val):")]),
    # ---- C03
    dict(name="c03-revert-dt-dir-fix", props=["C03"], only="two-targets-euler", edits=[(DS, "        if self.__integration_target is not None and self.__integration_target != self.__t[self.counter]:", "        if False:")]),
    dict(name="c03-final-step-not-clamped", props=["C03"], only="one-call", edits=[(DS, "                    dt = (tf - self.__t[self.counter])\n", "                    dt = self.dt\n")]),
    dict(name="c03-time-row-off", props=["C03"], only="one-call-euler", edits=[(DS, "                self.__t[self.counter + 1] = self.__t[self.counter] + dTime\n", "                self.__t[self.counter + 1] = self.__t[self.counter] + dt\n")], expect="quiet"),
    dict(name="c03-halving-dropped", props=["C03"], only="one-call-euler", edits=[(DS, "            self.dt = D.ar_numpy.abs(tf - self.__t[self.counter]) * 0.5", "            self.dt = D.ar_numpy.abs(tf - self.__t[self.counter]) * 1.5")]),
    # ---- C04
    dict(name="c04-revert-endtest-fix", props=["C04"], edits=[(DS, "D.ar_numpy.abs(self.dt) > D.ar_numpy.abs(tf - self.__t[self.counter]):\n                    is_final_step = True", "D.ar_numpy.abs(self.dt + self.__t[self.counter]) > D.ar_numpy.abs(tf):\n                    is_final_step = True")]),
    dict(name="c04-sympl-returns-scaled-step", props=["C04"], only="sympl", edits=[(IT, "        return timestep, (self.dTime, self.dState)\n\n    def dense_output(self):\n        return (self.initial_time + self.dTime,\n                utilities.interpolation.CubicHermiteInterp(\n                    self.initial_time,\n                    self.initial_time + self.dTime,\n                    self.initial_state,\n                    self.initial_state + self.dState,\n                    self.initial_rhs,\n                    self.final_rhs\n                ))\n\n    def step(self, rhs, initial_time, initial_state, constants, timestep):\n        current_time",
                                                                                   "        return timestep * 1.5, (self.dTime, self.dState)\n\n    def dense_output(self):\n        return (self.initial_time + self.dTime,\n                utilities.interpolation.CubicHermiteInterp(\n                    self.initial_time,\n                    self.initial_time + self.dTime,\n                    self.initial_state,\n                    self.initial_state + self.dState,\n                    self.initial_rhs,\n                    self.final_rhs\n                ))\n\n    def step(self, rhs, initial_time, initial_state, constants, timestep):\n        current_time")]),
    # ---- C02
    dict(name="c02-stage-time-wrong-column", props=["C02"], only="RK45CK", edits=[(RK, "initial_time + timestep * rk_tableau[stage, 0], ", "initial_time + timestep * rk_tableau[stage, 1], ")]),
    dict(name="c02-dropped-coefficient", props=["C02"], only="DOPRI45", edits=[(RK, "        nonzero_coeffs_mask = stage_coeffs != 0.0\n", "        nonzero_coeffs_mask = stage_coeffs > 0.0\n")]),
    dict(name="c02-accept-unconverged", props=["C02"], only="BackwardEuler", edits=[(IT, "            self.solver_dict[\"newton_iteration_success\"] = self.solver_dict[\"newton_iteration_success\"] and prec < desired_tol", "            self.solver_dict[\"newton_iteration_success\"] = self.solver_dict[\"newton_iteration_success\"] or prec < desired_tol")]),
    dict(name="c02-split-time-uses-kick-coeff", props=["C02"], only="ABAs5o6H", edits=[(IT, "            current_time = current_time + timestep * self.tableau_intermediate[stage, 1]", "            current_time = current_time + timestep * self.tableau_intermediate[stage, 2]")]),
    dict(name="c02-implicit-weights-row1", props=["C02"], only="RadauIIA5", edits=[(IT, "            self.dState = timestep * D.ar_numpy.sum(self.stage_values * self.tableau_final[0, 1:], axis=-1)", "            self.dState = timestep * D.ar_numpy.sum(self.stage_values * self.tableau_final[-1, 1:], axis=-1)")]),
    dict(name="c02-refactor-sum-order-quiet", props=["C02"], only="RK4", expect="quiet", edits=[(RK, "intermediate_stages_in[...,nonzero_coeffs_mask] * stage_coeffs[nonzero_coeffs_mask]", "stage_coeffs[nonzero_coeffs_mask] * intermediate_stages_in[...,nonzero_coeffs_mask]")]),
    # ---- C11
    dict(name="c11-radau5-a11-third-digit", props=["C11"], only="RadauIIA5", edits=[(IM, "        [[(4 - s) / 10, (88 - 7 * s) / 360, (296 - 169 * s) / 1800, (-2 + 3 * s) / 225],", "        [[(4 - s) / 10, (88 - 7 * s) / 370, (296 - 169 * s) / 1800, (-2 + 3 * s) / 225],")]),
    dict(name="c11-gauss4-a12-sign-flip-pole", props=["C11"], only="GaussLegendre4", edits=[(IM, "        [[0.5 - s / 6, 0.25, 0.25 - s / 6],", "        [[0.5 - s / 6, 0.25, 0.25 + s / 6],")]),
    dict(name="c11-radauIIA3-a22-sign-flip-pole", props=["C11"], only="RadauIIA3", edits=[(IM, "         [1, 3 / 4, 1 / 4]], dtype=numpy.float64", "         [1, 3 / 4, -1 / 4]], dtype=numpy.float64")]),
    dict(name="c11-radauIA3-b-weights-swapped", props=["C11"], only="RadauIA3", edits=[(IM, "        [[0, 1 / 4, 3 / 4]], dtype=numpy.float64", "        [[0, 3 / 4, 1 / 4]], dtype=numpy.float64")]),
    dict(name="c11-radau19-a10_3-third-digit", props=["C11"], only="RadauIIA19", edits=[(IM, "            0.1195967158571898566882859830801363758258364741540254585528364764,", "            0.1185967158571898566882859830801363758258364741540254585528364764,")]),
    dict(name="c11-lobattoIIIA4-a21-third-digit", props=["C11"], only="LobattoIIIA4", edits=[(IM, "         [0.5, 5 / 24, 1 / 3, -1 / 24],", "         [0.5, 5 / 25, 1 / 3, -1 / 24],")]),
    dict(name="c11-residual-reads-c-column", props=["C11"], only="GaussLegendre4-step", edits=[(IT, "                initial_state + timestep * D.ar_numpy.sum(tbl[1:] * __aux_states, axis=-1), **constants)\n            for tbl in self.tableau_intermediate\n        ], axis=-1)\n        __states", "                initial_state + timestep * D.ar_numpy.sum(tbl[:-1] * __aux_states, axis=-1), **constants)\n            for tbl in self.tableau_intermediate\n        ], axis=-1)\n        __states")]),
    dict(name="c11-refactor-weights-and-fractions-quiet", props=["C11"], expect="quiet", edits=[
        (IT, "            self.dState = timestep * D.ar_numpy.sum(self.stage_values * self.tableau_final[0, 1:], axis=-1)", "            self.dState = D.ar_numpy.sum(timestep * self.tableau_final[0, 1:] * self.stage_values, axis=-1)"),
        (IM, "        [[1 / 3, 5 / 12, -1 / 12],", "        [[2 / 6, 10 / 24, -2 / 24],")]),
    # ---- C16
    dict(name="c16-jac-evaluated-at-stale-time", props=["C16"], only="hist-noattr-dim1-J", edits=[(DS, "            if t != self.__jac_time:\n                self.__jac_time = t\n", "            if self.__jac_time is None:\n                self.__jac_time = t\n")]),
    dict(name="c16-rebuilt-wrapper-captures-zero-time", props=["C16"], only="hist-noattr-dim2-J", edits=[(DS, "                self.__jac = deutil.JacobianWrapper(lambda y, **kwargs: self(t, y, **kwargs),", "                self.__jac = deutil.JacobianWrapper(lambda y, **kwargs: self(0.0, y, **kwargs),")]),
    dict(name="c16-transposed-layout", props=["C16"], only="affine-2-to-2-bo5", all=True, edits=[(UT, "jacobian_y[:, idx]", "jacobian_y[idx, :]")]),
    dict(name="c16-final-reshape-input-first", props=["C16"], only="affine-3-to-2-bo4", edits=[(UT, "            return jacobian_y.reshape((*D.ar_numpy.shape(dy_val), *D.ar_numpy.shape(y)))", "            return jacobian_y.reshape((*D.ar_numpy.shape(y), *D.ar_numpy.shape(dy_val)))")]),
    dict(name="c16-njev-counted-twice", props=["C16"], only="hist-attr-dim1-H", edits=[(DS, "        self.njev += 1\n        return called_val", "        self.njev += 2\n        return called_val")]),
    dict(name="c16-mask-not-cleared", props=["C16"], only="affine-3-to-2-bo2", edits=[(UT, "            y_msk[idx - 1] = 0.0\n", "            pass\n")]),
    dict(name="c16-richardson-denominator", props=["C16"], only="poly-1var-deg3-bo2", all=True, edits=[(UT, "(denom ** n - 1)", "(denom ** n + 1)")]),
    dict(name="c16-hook-keeps-wrapped-flag", props=["C16"], only="hist-noattr-dim1-J", edits=[(DS, "        self.__jac = jac_fn\n        self.__jac_time = None\n        self.__jac_is_wrapped_rhs = False", "        self.__jac = jac_fn\n        self.__jac_time = None")]),
    dict(name="c16-relative-step-without-sign", props=["C16"], only="affine-s-to-s-bo5-fixed1", edits=[(UT, "                dy_cur = dy_cur * val\n", "                dy_cur = dy_cur * D.ar_numpy.abs(val)\n")], expect="quiet"),
    dict(name="c16-refactor-extrapolation-formula-quiet", props=["C16"], expect="quiet", all=True, edits=[
        (UT, "A[m].append(A[m][n - 1] + (A[m][n - 1] - A[m - 1][n - 1]) / (denom ** n - 1))", "A[m].append((denom ** n * A[m][n - 1] - A[m - 1][n - 1]) / (denom ** n - 1))"),
        (DS, "            if t != self.__jac_time:", "            if not (t == self.__jac_time):")]),
    # ---- C19
    dict(name="c19-revert-nearest-neighbour", props=["C19"], only="time-lookup-euler", edits=[(DS, "                if nearest_idx > 0 and D.ar_numpy.abs(D.ar_numpy.to_numpy(self.t[nearest_idx - 1] - index)) < D.ar_numpy.abs(", "                if nearest_idx > 1 and D.ar_numpy.abs(D.ar_numpy.to_numpy(self.t[nearest_idx - 1] - index)) < D.ar_numpy.abs(")]),
    dict(name="c19-index-ge-counter", props=["C19"], only="index-iter-euler", edits=[(DS, "            if index > self.counter:\n                raise IndexError(", "            if index >= self.counter:\n                raise IndexError(")]),
    dict(name="c19-slice-end-off-by-one", props=["C19"], only="slice-euler", edits=[(DS, "                end_idx = self.__search_time(index.stop) + 1", "                end_idx = self.__search_time(index.stop)")]),
    dict(name="c19-decreasing-grid-unsupported", props=["C19"], only="euler", edits=[(DS, "        if len(t) > 1 and t[-1] < t[0]:\n            reversed_t", "        if False:\n            reversed_t")]),
    # ---- C20
    dict(name="c20-nfev-counted-before-call", props=["C20"], only="fault-reset", edits=[(DS, "        called_val = self.rhs(t, y, *args, **kwargs)\n        self.nfev += 1\n        return called_val", "        self.nfev += 1\n        called_val = self.rhs(t, y, *args, **kwargs)\n        return called_val")]),
    dict(name="c20-reset-keeps-nfev", props=["C20"], only="fault-reset", edits=[(DS, "        self.equ_rhs.nfev = 0\n", "")]),
    dict(name="c20-callback-before-dt-update", props=["C20"], only="callback-dt-euler", edits=[(DS, "                if not is_final_step:\n                    self.dt = new_dt\n\n                for i in callback:\n                    i(self)\n", "                for i in callback:\n                    i(self)\n\n                if not is_final_step:\n                    self.dt = new_dt\n")]),
    dict(name="c20-callbacks-reversed", props=["C20"], only="counts-euler", edits=[(DS, "                for i in callback:\n                    i(self)", "                for i in reversed(callback):\n                    i(self)")]),
    dict(name="c20-symplectic-bypasses-counter", props=["C20"], only="counts-sympl", edits=[(IT, "                aux = timestep * rhs(current_time, initial_state + self.dState, **constants)", "                aux = timestep * rhs.rhs(current_time, initial_state + self.dState, **constants)")]),
    # ---- C12
    dict(name="c12-row-written-before-integrator-returns", props=["C12"], only="rhs-fault-euler", edits=[(DS, "                new_dt, (dTime, dState) = self.integrator(self.equ_rhs, self.__t[self.counter], self.__y[self.counter],\n                                                           self.constants, timestep=dt)\n", "                self.counter += 1\n                try:\n                    new_dt, (dTime, dState) = self.integrator(self.equ_rhs, self.__t[self.counter - 1], self.__y[self.counter - 1],\n                                                           self.constants, timestep=dt)\n                finally:\n                    self.counter -= 1\n" )], expect="quiet"),
    dict(name="c12-cause-dropped", props=["C12"], only="rhs-fault-euler-k02", edits=[(DS, "            new_e.__cause__ = e\n", "            new_e.__cause__ = None\n")]),
    dict(name="c12-keyboardinterrupt-wrapped", props=["C12"], only="KeyboardInterrupt", edits=[(DS, "        except KeyboardInterrupt as e:\n            self.__int_status = e\n            raise e", "        except KeyboardInterrupt as e:\n            self.__int_status = e\n            raise etypes.FailedIntegration(\"interrupted\") from e")]),
    dict(name="c12-counter-incremented-before-state-write", props=["C12"], only="callback-fault-euler", edits=[(DS, "                self.__y[self.counter + 1] = self.__y[self.counter] + dState\n                self.__t[self.counter + 1] = self.__t[self.counter] + dTime\n\n                self.counter += 1\n", "                self.counter += 1\n                self.__t[self.counter] = self.__t[self.counter - 1] + dTime\n                for i in callback:\n                    i(self)\n                self.__y[self.counter] = self.__y[self.counter - 1] + dState\n")]),
    dict(name="c12-reset-keeps-dense-output", props=["C12"], only="rhs-fault-euler-k03", edits=[(DS, "        self.__sol = DenseOutput(None, None)\n        self.dt = self.__dt0", "        self.dt = self.__dt0")]),
    dict(name="c12-stale-final-rhs-after-failed-step", props=["C12"], only="rhs-fault-rk4", edits=[(IT, "        self.dTime = D.ar_numpy.copy(timestep)\n        if self.is_fsal and self.is_explicit:", "        self.final_rhs = intermediate_rhs\n        self.dTime = D.ar_numpy.copy(timestep)\n        if self.is_fsal and self.is_explicit:")]),
]
