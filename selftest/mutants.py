"""Seeded source mutants (text replacements) per property, and refactorings that must stay quiet."""
DS = "desolver/differential_system.py"
IT = "desolver/integrators/integrator_types.py"
RK = "desolver/integrators/components/runge_kutta_methods.py"
UT = "desolver/utilities/utilities.py"
IP = "desolver/utilities/interpolation.py"
EX = "desolver/integrators/explicit_integration_schemes.py"
IM = "desolver/integrators/implicit_integration_schemes.py"
OP = "desolver/utilities/optimizer.py"

MUTANTS = [
    # ---- C17
    dict(name="c17-bisect-ge-to-gt-equivalent", props=["C17"], expect="quiet", edits=[(UT, "        if (val >= array[jmid]):", "        if (val > array[jmid]):")]),
    dict(name="c17-bisect-final-adjust", props=["C17"], edits=[(UT, "        if array[jlower] < val:\n            jlower = jupper", "        if array[jlower] <= val:\n            jlower = jupper")]),
    dict(name="c17-vec-le-to-lt", props=["C17"], edits=[(UT, "        msk2 = val <= mid_vals", "        msk2 = val < mid_vals")]),
    dict(name="c17-hermite-h10", props=["C17"], edits=[(IP, "        h10 = t3 - 2 * t2 + t\n", "        h10 = t3 - 2 * t2 + t2\n")]),
    dict(name="c17-hermite-grad-h11", props=["C17"], edits=[(IP, "        h11 = t3 - t2\n\n        return h00 * self.p0 + h10 * self.trange * self.m0 + h01 * self.p1 + h11 * self.trange * self.m1\n\n    def __repr__",
                                                        "        h11 = t3 - 2 * t2\n\n        return h00 * self.p0 + h10 * self.trange * self.m0 + h01 * self.p1 + h11 * self.trange * self.m1\n\n    def __repr__")]),
    dict(name="c17-refactor-bisect-quiet", props=["C17"], expect="quiet", edits=[(UT, "        jmid = (jupper + jlower) // 2\n        if (val >= array[jmid]):", "        jmid = jlower + (jupper - jlower) // 2\n        if (array[jmid] <= val):")]),
    # ---- C03
    dict(name="c03-revert-dt-dir-fix", props=["C03"], only="two-targets-euler", edits=[(DS, "        if self.__integration_target is not None and self.__integration_target != self.__t[self.counter]:", "        if False:")]),
    dict(name="c03-final-step-not-clamped", props=["C03"], only="one-call", edits=[(DS, "                    dt = (tf - self.__t[self.counter])\n", "                    dt = self.dt\n")]),
    dict(name="c03-time-row-off", props=["C03"], only="one-call-euler", edits=[(DS, "                self.__t[self.counter + 1] = self.__t[self.counter] + dTime\n", "                self.__t[self.counter + 1] = self.__t[self.counter] + dt\n")], expect="quiet"),
    dict(name="c03-halving-dropped", props=["C03"], only="one-call-euler", edits=[(DS, "            self.dt = D.ar_numpy.abs(tf - self.__t[self.counter]) * 0.5", "            self.dt = D.ar_numpy.abs(tf - self.__t[self.counter]) * 1.5")]),
    # ---- C04
    dict(name="c04-revert-endtest-fix", props=["C04"], edits=[(DS, "D.ar_numpy.abs(self.dt) > D.ar_numpy.abs(tf - self.__t[self.counter]):\n                    is_final_step = True", "D.ar_numpy.abs(self.dt + self.__t[self.counter]) > D.ar_numpy.abs(tf):\n                    is_final_step = True")]),
    dict(name="c04-sympl-returns-scaled-step", props=["C04"], only="sympl", edits=[(IT, "        return timestep, (self.dTime, self.dState)\n\n    def dense_output(self):\n        return (self.initial_time + self.dTime,\n                utilities.interpolation.CubicHermiteInterp(\n                    self.initial_time,\n                    self.initial_time + self.dTime,\n                    self.initial_state,\n                    self.initial_state + self.dState,\n                    self.initial_rhs,\n                    self.final_rhs\n                ))\n\n    def step(self, rhs, initial_time, initial_state, constants, timestep):\n        current_time",
                                                                                   "        return timestep * 1.5, (self.dTime, self.dState)\n\n    def dense_output(self):\n        return (self.initial_time + self.dTime,\n                utilities.interpolation.CubicHermiteInterp(\n                    self.initial_time,\n                    self.initial_time + self.dTime,\n                    self.initial_state,\n                    self.initial_state + self.dState,\n                    self.initial_rhs,\n                    self.final_rhs\n                ))\n\n    def step(self, rhs, initial_time, initial_state, constants, timestep):\n        current_time")]),
    # ---- C02
    dict(name="c02-stage-time-wrong-column", props=["C02"], only="RK45CK", edits=[(RK, "initial_time + timestep * rk_tableau[stage, 0], ", "initial_time + timestep * rk_tableau[stage, 1], ")]),
    dict(name="c02-dropped-coefficient", props=["C02"], only="DOPRI45", edits=[(RK, "        nonzero_coeffs_mask = stage_coeffs != 0.0\n", "        nonzero_coeffs_mask = stage_coeffs > 0.0\n")]),
    dict(name="c02-accept-unconverged", props=["C02"], only="BackwardEuler", edits=[(IT, "            self.solver_dict[\"newton_iteration_success\"] = self.solver_dict[\"newton_iteration_success\"] and prec < desired_tol", "            self.solver_dict[\"newton_iteration_success\"] = self.solver_dict[\"newton_iteration_success\"] or prec < desired_tol")]),
    dict(name="c02-split-time-uses-kick-coeff", props=["C02"], only="ABAs5o6H", edits=[(IT, "            current_time = current_time + timestep * self.tableau_intermediate[stage, 1]", "            current_time = current_time + timestep * self.tableau_intermediate[stage, 2]")]),
    dict(name="c02-implicit-weights-row1", props=["C02"], only="RadauIIA5", edits=[(IT, "            self.dState = timestep * D.ar_numpy.sum(self.stage_values * self.tableau_final[0, 1:], axis=-1)", "            self.dState = timestep * D.ar_numpy.sum(self.stage_values * self.tableau_final[-1, 1:], axis=-1)")]),
    dict(name="c02-refactor-sum-order-quiet", props=["C02"], only="RK4", expect="quiet", edits=[(RK, "intermediate_stages_in[...,nonzero_coeffs_mask] * stage_coeffs[nonzero_coeffs_mask]", "stage_coeffs[nonzero_coeffs_mask] * intermediate_stages_in[...,nonzero_coeffs_mask]")]),
    # ---- C11
    dict(name="c11-radau5-a11-third-digit", props=["C11"], only="RadauIIA5", edits=[(IM, "        [[(4 - s) / 10, (88 - 7 * s) / 360, (296 - 169 * s) / 1800, (-2 + 3 * s) / 225],", "        [[(4 - s) / 10, (88 - 7 * s) / 370, (296 - 169 * s) / 1800, (-2 + 3 * s) / 225],")]),
    dict(name="c11-gauss4-a12-sign-flip-pole", props=["C11"], only="GaussLegendre4", edits=[(IM, "        [[0.5 - s / 6, 0.25, 0.25 - s / 6],", "        [[0.5 - s / 6, 0.25, 0.25 + s / 6],")]),
    dict(name="c11-radauIIA3-a22-sign-flip-pole", props=["C11"], only="RadauIIA3", edits=[(IM, "         [1, 3 / 4, 1 / 4]], dtype=numpy.float64", "         [1, 3 / 4, -1 / 4]], dtype=numpy.float64")]),
    dict(name="c11-radauIA3-b-weights-swapped", props=["C11"], only="RadauIA3", edits=[(IM, "        [[0, 1 / 4, 3 / 4]], dtype=numpy.float64", "        [[0, 3 / 4, 1 / 4]], dtype=numpy.float64")]),
    dict(name="c11-radau19-a10_3-third-digit", props=["C11"], only="RadauIIA19", edits=[(IM, "            0.1195967158571898566882859830801363758258364741540254585528364764,", "            0.1185967158571898566882859830801363758258364741540254585528364764,")]),
    dict(name="c11-lobattoIIIA4-a21-third-digit", props=["C11"], only="LobattoIIIA4", edits=[(IM, "         [0.5, 5 / 24, 1 / 3, -1 / 24],", "         [0.5, 5 / 25, 1 / 3, -1 / 24],")]),
    dict(name="c11-residual-reads-c-column", props=["C11"], only="GaussLegendre4-step", edits=[(IT, "                initial_state + timestep * D.ar_numpy.sum(tbl[1:] * __aux_states, axis=-1), **constants)\n            for tbl in self.tableau_intermediate\n        ], axis=-1)\n        __states", "                initial_state + timestep * D.ar_numpy.sum(tbl[:-1] * __aux_states, axis=-1), **constants)\n            for tbl in self.tableau_intermediate\n        ], axis=-1)\n        __states")]),
    dict(name="c11-refactor-weights-and-fractions-quiet", props=["C11"], expect="quiet", edits=[
        (IT, "            self.dState = timestep * D.ar_numpy.sum(self.stage_values * self.tableau_final[0, 1:], axis=-1)", "            self.dState = D.ar_numpy.sum(timestep * self.tableau_final[0, 1:] * self.stage_values, axis=-1)"),
        (IM, "        [[1 / 3, 5 / 12, -1 / 12],", "        [[2 / 6, 10 / 24, -2 / 24],")]),
]
