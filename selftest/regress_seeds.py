#!/usr/bin/env python3
"""Developer tool: re-evaluate every imported seed (seeded/<ID>) against the quick check of its own property on a scratch copy of /repo.
usage: selftest/regress_seeds.py [ID-substring ...]   -> one line per seed, summary at the end (also written to $SRX_REGRESS_OUT or /tmp/seed_regress.txt)"""
import json
import os
import subprocess
import sys

VERIF = os.path.dirname(os.path.dirname(os.path.abspath(__file__)))
NEUTRALISED = {"C04-5", "C06-2", "C08-3", "C12-4", "C13-5", "C14-2", "C04-4", "C01-2", "C02", "C11-3"}


def main():
    sel = sys.argv[1:]
    out = os.environ.get("SRX_REGRESS_OUT", "/tmp/seed_regress.txt")
    seeds = sorted(d for d in os.listdir(os.path.join(VERIF, "seeded")) if os.path.isdir(os.path.join(VERIF, "seeded", d)))
    rows = []
    with open(out, "w") as f:
        for sd in seeds:
            if sel and not any(s in sd for s in sel):
                continue
            if sd in NEUTRALISED:
                line = "%-7s neutralised by a later fix (see meta.json)" % sd
                print(line, flush=True)
                f.write(line + "\n")
                continue
            prop = sd.split("-")[0]
            meta = json.load(open(os.path.join(VERIF, "seeded", sd, "meta.json")))
            tier = "thorough" if "thorough" in str(meta.get("caught_by", "")) else "quick"
            r = subprocess.run([os.path.join(VERIF, "selftest", "try_seed.py"), os.path.join(VERIF, "seeded", sd), prop, "--tier", tier], capture_output=True, text=True)
            try:
                res = json.loads(r.stdout)
                ok = prop in res.get("caught_by", [])
                line = "%-7s %-8s applies=%s demo=%s/%s %s | %s" % (sd, "CAUGHT" if ok else "**MISSED**", res.get("patch_applies"), res.get("demo_pristine_exit"),
                                                                   res.get("demo_patched_exit"), tier, res.get("checks", {}).get(prop, {}).get("first", "")[:140])
            except Exception:
                ok = False
                line = "%-7s **ERROR** %s" % (sd, (r.stdout + r.stderr)[-200:].replace("\n", " "))
            rows.append(ok)
            print(line, flush=True)
            f.write(line + "\n")
            f.flush()
        f.write("%d evaluated, %d caught\n" % (len(rows), sum(rows)))
    print("%d evaluated, %d caught" % (len(rows), sum(rows)))


if __name__ == "__main__":
    main()
