#!/usr/bin/env python3
"""Developer tool: evaluate an independently written breaking change (patch.diff + demo.py) against the checks.

usage: selftest/try_seed.py <dir-with-patch.diff-and-demo.py> <PROP> [<PROP> ...] [--tier quick|thorough] [--only substr]
Works on a scratch copy of /repo outside /repo and /verif (SRX_REPO), removed afterwards.
"""
import json
import os
import shutil
import subprocess
import sys
import tempfile

VERIF = os.path.dirname(os.path.dirname(os.path.abspath(__file__)))


def main():
    args = sys.argv[1:]
    tier = "quick"
    only = None
    if "--tier" in args:
        i = args.index("--tier")
        tier = args[i + 1]
        del args[i:i + 2]
    if "--only" in args:
        i = args.index("--only")
        only = args[i + 1]
        del args[i:i + 2]
    seed = os.path.abspath(args[0])
    props = args[1:]
    tmp = tempfile.mkdtemp(prefix="srx_seed_")
    out = dict(seed=seed, props=props, tier=tier)
    try:
        repo = os.path.join(tmp, "repo")
        shutil.copytree("/repo", repo, ignore=shutil.ignore_patterns(".git", "__pycache__", "docs", "*.pyc"))
        env = dict(os.environ, PYTHONPATH=repo)
        demo = os.path.join(seed, "demo.py")
        r0 = subprocess.run(["/venv/bin/python", demo], env=env, cwd=repo, capture_output=True, text=True, timeout=600)
        out["demo_pristine_exit"] = r0.returncode
        subprocess.run(["git", "init", "-q"], cwd=repo)
        ap = subprocess.run(["git", "apply", "--whitespace=nowarn", os.path.join(seed, "patch.diff")], cwd=repo, capture_output=True, text=True)
        out["patch_applies"] = ap.returncode == 0
        if ap.returncode != 0:
            out["patch_error"] = ap.stderr[-500:]
            print(json.dumps(out, indent=1))
            return 2
        r1 = subprocess.run(["/venv/bin/python", demo], env=env, cwd=repo, capture_output=True, text=True, timeout=600)
        out["demo_patched_exit"] = r1.returncode
        out["demo_patched_tail"] = (r1.stdout + r1.stderr)[-400:]
        env2 = dict(os.environ, SRX_REPO=repo, SRX_OUT=os.path.join(tmp, "out"))
        res = {}
        for pid in props:
            cmd = [os.path.join(VERIF, "bin", "check"), pid, "--tier", tier]
            if only:
                cmd += ["--only", only]
            r = subprocess.run(cmd, env=env2, capture_output=True, text=True)
            vio = [l for l in r.stdout.splitlines() if l.startswith("VIOLATION")]
            first = ""
            for l in r.stdout.splitlines():
                if l.startswith("  check="):
                    first = l.strip()[:220]
                    break
            res[pid] = dict(rc=r.returncode, violations=len(vio), first=first, summary=(r.stdout.strip().splitlines() or [""])[-1][:200])
        out["checks"] = res
        out["caught_by"] = [p for p, v in res.items() if v["rc"] == 1 and v["violations"] > 0]
    finally:
        shutil.rmtree(tmp, ignore_errors=True)
    print(json.dumps(out, indent=1))
    return 0


if __name__ == "__main__":
    sys.exit(main())
