#!/usr/bin/env python3
"""Developer tool (not a registered check): apply seeded source mutants to a scratch copy of /repo (outside /repo and /verif),
run the named check against it, report caught / missed.  Also runs behaviour-preserving refactorings that must NOT be flagged.

usage: selftest/run_mutants.py [name-substring ...]
"""
import json
import os
import shutil
import subprocess
import sys
import tempfile

VERIF = os.path.dirname(os.path.dirname(os.path.abspath(__file__)))
sys.path.insert(0, os.path.join(VERIF, "selftest"))
from mutants import MUTANTS   # noqa


def main():
    sel = sys.argv[1:]
    rows = []
    for m in MUTANTS:
        if sel and not any(s in m["name"] for s in sel):
            continue
        tmp = tempfile.mkdtemp(prefix="srx_mut_")
        try:
          try:
              repo = os.path.join(tmp, "repo")
              shutil.copytree("/repo", repo, ignore=shutil.ignore_patterns(".git", "__pycache__", "docs", "*.pyc"))
              for (f, old, new) in m["edits"]:
                  p = os.path.join(repo, f)
                  s = open(p).read()
                  if s.count(old) < 1:
                      raise LookupError("pattern not found in %s" % f)
                  s = s.replace(old, new) if m.get("all") else s.replace(old, new, 1)
                  open(p, "w").write(s)
              env = dict(os.environ, SRX_REPO=repo, SRX_OUT=os.path.join(tmp, "out"))
              for pid in m["props"]:
                  cmd = [os.path.join(VERIF, "bin", "check"), pid, "--tier", m.get("tier", "quick")]
                  if m.get("only"):
                      cmd += ["--only", m["only"]]
                  r = subprocess.run(cmd, env=env, capture_output=True, text=True)
                  vio = [l for l in r.stdout.splitlines() if l.startswith("VIOLATION")]
                  caught = r.returncode == 1 and bool(vio)
                  expect = m.get("expect", "caught")
                  ok = (caught and expect == "caught") or (not caught and r.returncode == 0 and expect == "quiet")
                  last = r.stdout.strip().splitlines()[-1] if r.stdout.strip() else r.stderr[-300:]
                  detail = ""
                  for l in r.stdout.splitlines():
                      if l.startswith("  check="):
                          detail = l.strip()[:160]
                          break
                  print("%-44s %-4s rc=%d %-7s %s | %s | %s" % (m["name"], pid, r.returncode, "OK" if ok else "**BAD**", expect, detail, last[:150]), flush=True)
                  rows.append(dict(name=m["name"], prop=pid, rc=r.returncode, ok=ok, expect=expect))
          except LookupError as e:
            print("%-44s STALE   %s" % (m["name"], e), flush=True)
            rows.append(dict(name=m["name"], prop="-", rc=-1, ok=False, expect="stale"))
        finally:
            shutil.rmtree(tmp, ignore_errors=True)
    bad = [r for r in rows if not r["ok"]]
    print("%d runs, %d not as expected" % (len(rows), len(bad)))
    return 1 if bad else 0


if __name__ == "__main__":
    sys.exit(main())
