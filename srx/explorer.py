"""Path exploration (DFS by re-execution with a decision prefix), assertion queries,
known-finding regions, concrete (float) replay context."""
from __future__ import annotations

import math
import time
import traceback
from fractions import Fraction

import z3

from . import core
from .core import (SymBool, SymReal, PathCtx, Infeasible, CutPath, Unsupported, BudgetHit,
                   as_symbool, as_symreal, TRUE, FALSE)


class Explorer:
    def __init__(self, max_paths=2000, max_branches=400, wall_s=120.0, solver_timeout_ms=10000,
                 max_int_choices=16, known_keys=(), max_candidates_per_check=4, seed=0):
        self.max_paths = max_paths
        self.max_branches = max_branches
        self.wall_s = wall_s
        self.solver_timeout_ms = solver_timeout_ms
        self.max_int_choices = max_int_choices
        self.known_keys = set(known_keys)
        self.max_cand = max_candidates_per_check
        self.seed = seed
        self.solver_mode = "both"     # "tactic" | "inc" | "both"
        self.tactic = z3.Then("simplify", "solve-eqs", "qfnra-nlsat")
        self.tactic_timeout_ms = min(solver_timeout_ms, 4000)
        self.stats = dict(paths=0, infeasible=0, cut={}, budget_hit=0, queries=0, solver_s=0.0,
                          unknown_feasibility=0, checks=0, trivial=0, discharged=0, sat=0,
                          inconclusive=0, known_sat=0, skipped_after_cap=0, harness_errors=0,
                          nontrivial_paths=0, unsupported=0, extra_cases=0)
        self.worklist = []
        self.t0 = None
        self.candidates = []      # violation candidates (to be replayed)
        self.known_hits = []      # witnesses inside listed known-finding regions
        self.inconclusive = []
        self.samples = []
        self.errors = []
        self.cand_count = {}
        self.exhausted = True
        self.check_names = {}

    # -- solver
    def new_solver(self):
        s = z3.Solver()
        s.set("timeout", self.solver_timeout_ms)
        s.set("random_seed", self.seed & 0xffff)
        return s

    def tick(self):
        if self.t0 is not None and time.time() - self.t0 > self.wall_s:
            raise BudgetHit("wall")

    def push_alt(self, prefix, model=None):
        self.worklist.append((list(prefix), model))

    # -- transcendental helpers (only the step controller uses them)
    def const_fun(self, name, v):
        f = {"arctan": math.atan, "log": math.log, "exp": math.exp}[name]
        if name == "arctan" and v == 0:
            return SymReal({})
        if name == "exp" and v == 0:
            return SymReal(core.p_const(1))
        if name == "log" and v == 1:
            return SymReal({})
        return SymReal(core.p_const(Fraction(f(float(v)))))

    def const_pow(self, v, kf):
        if v == 1:
            return SymReal(core.p_const(1))
        if v < 0:
            raise CutPath("ieee_special", "fractional power of a negative constant")
        return SymReal(core.p_const(Fraction(float(v) ** float(kf))))

    def fun_axioms(self, c, name, x, r):
        xz, rz = x.z3(), r.z3()
        if name == "arctan":
            half_pi = z3.RealVal("15707963267948966/10000000000000000")
            c._add(z3.And(rz > -half_pi - z3.RealVal("1/1000000"), rz < half_pi + z3.RealVal("1/1000000")))
            c._add(z3.Implies(xz == 0, rz == 0))
            c._add(z3.Implies(xz > 0, z3.And(rz > 0, rz < xz)))
            c._add(z3.Implies(xz < 0, z3.And(rz < 0, rz > xz)))
            # a few certified secant/tangent facts: arctan(x) >= x/(1+x^2)*... keep simple enclosures at breakpoints
            for bp in (Fraction(-1), Fraction(-9, 10), Fraction(-3, 4), Fraction(-1, 2), Fraction(-35, 100), Fraction(-1, 4),
                       Fraction(-1925, 10000), Fraction(-19, 100), Fraction(-1, 10), Fraction(1, 10), Fraction(1, 4), Fraction(1, 2),
                       Fraction(1), Fraction(2), Fraction(5)):
                val = Fraction(math.atan(float(bp)))
                lo = val - Fraction(1, 10**12)
                hi = val + Fraction(1, 10**12)
                c._add(z3.Implies(xz <= core._rat(bp), rz <= core._rat(hi)))
                c._add(z3.Implies(xz >= core._rat(bp), rz >= core._rat(lo)))
        elif name == "exp":
            c._add(rz > 0)
            c._add(z3.Implies(xz == 0, rz == 1))
            c._add(z3.Implies(xz > 0, rz > 1))
            c._add(z3.Implies(xz < 0, rz < 1))
        elif name == "log":
            c._add(z3.Implies(xz == 1, rz == 0))
            c._add(z3.Implies(xz > 1, rz > 0))
            c._add(z3.Implies(z3.And(xz > 0, xz < 1), rz < 0))
        self._mono_axioms(c, name, x, r, increasing=True)

    def pow_axioms(self, c, x, kf, r):
        xz, rz = x.z3(), r.z3()
        inc = kf > 0
        c._add(z3.Implies(xz > 0, rz > 0))
        c._add(z3.Implies(xz == 1, rz == 1))
        if inc:
            c._add(z3.Implies(xz > 1, rz > 1))
            c._add(z3.Implies(z3.And(xz > 0, xz < 1), z3.And(rz < 1, rz > 0)))
            c._add(z3.Implies(xz == 0, rz == 0))
            if kf < 1:
                c._add(z3.Implies(xz > 1, rz < xz))
                c._add(z3.Implies(z3.And(xz > 0, xz < 1), rz > xz))
        else:
            c._add(z3.Implies(xz > 1, z3.And(rz < 1, rz > 0)))
            c._add(z3.Implies(z3.And(xz > 0, xz < 1), rz > 1))
        # exact root relation when the exponent is 1/n or -1/n  (r^n = x  resp. r^n * x = 1)
        if abs(kf.numerator) == 1 and kf.denominator <= 8:
            n = kf.denominator
            rn = rz
            for _ in range(n - 1):
                rn = rn * rz
            if kf > 0:
                c._add(z3.Implies(xz >= 0, rn == xz))
            else:
                c._add(z3.Implies(xz > 0, rn * xz == 1))
        self._mono_axioms(c, "pow_%d_%d" % (kf.numerator, kf.denominator), x, r, increasing=inc)

    def _mono_axioms(self, c, name, x, r, increasing):
        apps = c.uf_apps.get(name if not name.startswith("pow") else name, [])
        xz, rz = x.z3(), r.z3()
        for (pargs, pouts) in apps[:-1]:
            oz = core.poly_to_z3(pargs[0])
            pz = pouts[0].z3()
            if increasing:
                c._add(z3.Implies(oz < xz, pz < rz))
                c._add(z3.Implies(oz > xz, pz > rz))
            else:
                c._add(z3.Implies(oz < xz, pz > rz))
                c._add(z3.Implies(oz > xz, pz < rz))

    # -- assertion queries
    def do_check(self, c, name, cond, info, regions):
        if c.replaying:
            return True      # already evaluated by the path this prefix was forked from
        self.stats["checks"] += 1
        st = self.check_names.setdefault(name, dict(evaluated=0, trivial=0, discharged=0, sat=0, inconclusive=0, known=0))
        st["evaluated"] += 1
        c.checks.append(name)
        cond = as_symbool(cond)
        if cond is NotImplemented:
            raise TypeError("check condition must be boolean")
        if cond.is_const and cond.value:
            self.stats["trivial"] += 1
            st["trivial"] += 1
            return True
        neg = ~cond
        regions = regions or {}
        listed = {k: as_symbool(r) for k, r in regions.items() if k in self.known_keys}
        newq = neg
        for r in listed.values():
            newq = newq & ~r
        ok = True
        # (1) violation outside every listed region
        if self.cand_count.get(name, 0) >= self.max_cand:
            self.stats["skipped_after_cap"] += 1
        else:
            res, wit = self._query(c, newq)
            if res == "unsat" and listed and newq.is_const and not neg.is_const:
                # the whole negation lies inside a listed known-finding region: nothing was proved here
                self.stats["masked_by_known_region"] = self.stats.get("masked_by_known_region", 0) + 1
                st["masked"] = st.get("masked", 0) + 1
            elif res == "unsat" and listed and newq.is_const and neg.is_const and neg.value:
                self.stats["masked_by_known_region"] = self.stats.get("masked_by_known_region", 0) + 1
                st["masked"] = st.get("masked", 0) + 1
            elif res == "unsat":
                self.stats["discharged"] += 1
                st["discharged"] += 1
            elif res == "sat":
                ok = False
                self.stats["sat"] += 1
                st["sat"] += 1
                self.cand_count[name] = self.cand_count.get(name, 0) + 1
                self.candidates.append(dict(check=name, witness=wit, info=_jsonable(info), path=list(map(_dec_str, c.decisions))))
            else:
                self.stats["inconclusive"] += 1
                st["inconclusive"] += 1
                if len(self.inconclusive) < 20:
                    self.inconclusive.append(dict(check=name, reason="solver unknown", path=list(map(_dec_str, c.decisions))))
        # (2) listed regions
        for k, r in listed.items():
            ck = (name, k)
            if self.cand_count.get(ck, 0) >= 2:
                continue
            res, wit = self._query(c, neg & r)
            if res == "sat":
                self.stats["known_sat"] += 1
                st["known"] += 1
                self.cand_count[ck] = self.cand_count.get(ck, 0) + 1
                self.known_hits.append(dict(check=name, key=k, witness=wit, info=_jsonable(info)))
        return ok

    def _query(self, c, q):
        if q.is_const:
            if not q.value:
                return "unsat", None
            return "sat", self._witness(c)
        v = c.model_value(q)
        if v is True:
            return "sat", self._witness(c)
        c.solver.push()
        try:
            c.solver.add(q.z3())
            r = c._check()
            if r == z3.sat:
                m = c._last_model
                wit = {}
                for s in c.syms:
                    if s.defn is None:
                        val = m.eval(s.z3v, model_completion=True)
                        wit[s.name] = _z3val_str(val)
                return "sat", wit
            if r == z3.unsat:
                return "unsat", None
            return "unknown", None
        finally:
            c.solver.pop()

    def _retry(self, c, q):
        try:
            t = z3.Then("simplify", "solve-eqs", "qfnra-nlsat")
            s = t.solver()
            s.set("timeout", self.solver_timeout_ms)
            for a in c.solver.assertions():
                s.add(a)
            t0 = time.time()
            r = s.check()
            self.stats["solver_s"] += time.time() - t0
            self.stats["queries"] += 1
            if r == z3.unsat:
                return "unsat", None
            if r == z3.sat:
                m = s.model()
                wit = {}
                for sy in c.syms:
                    if sy.defn is None:
                        wit[sy.name] = _z3val_str(m.eval(sy.z3v, model_completion=True))
                return "sat", wit
        except z3.Z3Exception:
            pass
        return "unknown", None

    def _witness(self, c):
        ev = c.get_evaluator()
        wit = {}
        for s in c.syms:
            if s.defn is None:
                v = ev.sym(s.sid)
                wit[s.name] = str(v)
        return wit

    # -- main loop
    def explore(self, fn):
        self.t0 = time.time()
        self.worklist = [([], None)]
        while self.worklist:
            if self.stats["paths"] >= self.max_paths or time.time() - self.t0 > self.wall_s:
                self.exhausted = False
                break
            prefix, pmodel = self.worklist.pop()
            c = PathCtx(self, prefix, pmodel)
            core.set_ctx(c)
            outcome = "done"
            try:
                fn(c)
            except Infeasible:
                outcome = "infeasible"
                self.stats["infeasible"] += 1
            except CutPath as e:
                outcome = "cut:" + e.reason
                self.stats["cut"][e.reason] = self.stats["cut"].get(e.reason, 0) + 1
                if len(self.samples) < 40:
                    self.samples.append(dict(outcome=outcome, detail=str(e.detail)[:200], path=list(map(_dec_str, c.decisions))))
            except Unsupported as e:
                outcome = "unsupported"
                self.stats["unsupported"] += 1
                self.errors.append(dict(kind="unsupported", detail=str(e), tb=traceback.format_exc()[-1500:]))
            except BudgetHit as e:
                outcome = "budget"
                self.stats["budget_hit"] += 1
                self.exhausted = False
                if str(e) == "wall" or (e.args and e.args[0] == "wall"):
                    core.set_ctx(None)
                    break
            except Exception as e:   # harness bug, not a verdict
                outcome = "harness_error"
                self.stats["harness_errors"] += 1
                self.errors.append(dict(kind="harness_error", detail=repr(e), tb=traceback.format_exc()[-3000:],
                                        path=list(map(_dec_str, c.decisions))))
            finally:
                core.set_ctx(None)
            if outcome != "infeasible":
                self.stats["paths"] += 1
                if outcome == "done" and c.checks:
                    self.stats["nontrivial_paths"] += 1
                    if len(self.samples) < 40:
                        self.samples.append(dict(outcome="done", checks=len(c.checks), notes=_jsonable(c.notes),
                                                 witness=self._safe_witness(c), path=list(map(_dec_str, c.decisions))))
        if self.worklist:
            self.exhausted = False
        self.wall = time.time() - self.t0
        return self

    def _safe_witness(self, c):
        try:
            core.set_ctx(c)
            ev = c.get_evaluator()
            if ev is None:
                return None
            w = {}
            for s in c.syms:
                if s.kind == "input":
                    w[s.name] = str(ev.sym(s.sid))
            return w
        except BaseException:
            return None
        finally:
            core.set_ctx(None)

    def summary(self):
        st = dict(self.stats)
        st["exhausted"] = self.exhausted
        st["wall_s"] = round(getattr(self, "wall", 0.0), 3)
        st["solver_s"] = round(st["solver_s"], 3)
        return dict(stats=st, checks=self.check_names, candidates=self.candidates, known_hits=self.known_hits,
                    inconclusive=self.inconclusive, samples=self.samples, errors=self.errors)


def _dec_str(d):
    if isinstance(d, bool):
        return "T" if d else "F"
    return str(d)


def _z3val_str(v):
    if z3.is_rational_value(v):
        return str(Fraction(v.numerator_as_long(), v.denominator_as_long()))
    if z3.is_algebraic_value(v):
        a = v.approx(20)
        return str(Fraction(a.numerator_as_long(), a.denominator_as_long()))
    return str(v)


def _jsonable(x):
    if x is None or isinstance(x, (bool, int, str)):
        return x
    if isinstance(x, float):
        return x
    if isinstance(x, Fraction):
        return str(x)
    if isinstance(x, dict):
        return {str(k): _jsonable(v) for k, v in x.items()}
    if isinstance(x, (list, tuple)):
        return [_jsonable(v) for v in x]
    return repr(x)[:200]


# ----------------------------------------------------------------------------
# concrete replay context: the same scenario function, on floats


class ReplayInvalid(BaseException):
    """the float witness does not satisfy a harness assumption (BaseException: must not be mistaken for an exception of the code under test)"""


class ConcreteCtx:
    """mirrors the PathCtx API used by scenario functions, on numpy floats"""
    symbolic = False

    def __init__(self, witness, dtype=None, tol=None):
        import numpy as np
        self.np = np
        self.w = witness or {}
        self.dtype = dtype or np.float64
        self.eps = float(np.finfo(self.dtype).eps)
        self.tol = tol if tol is not None else 256 * self.eps
        self.failed = []
        self.passed = []
        self.notes = {}
        self.uf_counter = {}

    def _val(self, name, default=None):
        v = self.w.get(name)
        if v is None:
            if default is None:
                raise ReplayInvalid("witness lacks " + name)
            return default
        return float(Fraction(v))

    def real(self, name):
        return self.dtype(self._val(name, 0.0))

    def assume(self, cond):
        if not bool(cond):
            raise ReplayInvalid("assumption does not hold for the float witness")

    def uf(self, name, args, n_out, fresh=False):
        if not fresh:
            # congruent uninterpreted function: in the replay a fixed generic smooth function of the arguments
            import math
            s = 0.0
            for i, a in enumerate(args):
                # (the constant term makes applications with a different number of arguments generically different, as in the symbolic model)
                s += (0.37 + 0.11 * i) * float(a) + 0.19 * (i + 1)
            return [self.dtype(math.sin(1.3 * j + 0.7 + s) + 0.25 * j) for j in range(n_out)]
        idx = self.uf_counter.get(name, 0)
        self.uf_counter[name] = idx + 1
        out = []
        for j in range(n_out):
            d = 0.37 * (idx + 1) + 0.11 * j + 0.05
            out.append(self.dtype(self._val("%s_%d_%d" % (name, idx, j), d)))
        return out

    def check(self, name, cond, info=None, regions=None):
        if bool(cond):
            self.passed.append(name)
            return True
        self.failed.append(name)
        return False

    def note(self, k, v):
        self.notes[k] = v

    def case(self, n=1):
        pass

    def array(self, x):
        return self.np.asarray(x, dtype=self.dtype)

    def eq(self, a, b, scale=1):
        s = max(1.0, abs(float(scale)))
        return bool(abs(a - b) <= self.tol * max(s, abs(float(a)), abs(float(b))))

    def le(self, a, b, scale=1):
        s = max(1.0, abs(float(scale)))
        return bool(a <= b + self.tol * max(s, abs(float(a)), abs(float(b))))

    def lt(self, a, b, scale=0):
        if scale:
            s = max(1.0, abs(float(scale)))
            return bool(a < b + self.tol * s)
        return bool(a < b)

    def all(self, conds):
        return all(bool(c) for c in conds)

    def any(self, conds):
        return any(bool(c) for c in conds)
