"""SRX core: symbolic reals in polynomial normal form, symbolic booleans, path context.

A SymReal is a sparse multivariate polynomial over Q in named symbols.  Symbols
are harness inputs or definitional atoms (quotients, if-then-else, sqrt, ...)
whose defining constraint is added to the path assumptions.  SymBool is a small
boolean AST over polynomial sign conditions; bool(SymBool) is the only place a
path forks.  Everything is exact (fractions.Fraction); floats met on the way are
lifted exactly.
"""
from __future__ import annotations

import math
import numbers
import time
from fractions import Fraction

import z3

# ----------------------------------------------------------------------------
# control-flow exceptions (BaseException so that `except Exception` in the code
# under test never swallows them)


class SrxControl(BaseException):
    pass


class Infeasible(SrxControl):
    """the forced decision of this prefix is infeasible"""


class CutPath(SrxControl):
    def __init__(self, reason, detail=""):
        super().__init__(reason, detail)
        self.reason = reason
        self.detail = detail


class Unsupported(SrxControl):
    """an operation the engine refuses to model (never silently concretised)"""


class BudgetHit(SrxControl):
    pass


class Hang(BaseException):
    """the code under test did not return within the (non-solver) time allowed for one call"""


IN_SOLVER = [0, 0.0]     # [depth, total seconds spent inside solver calls]


# ----------------------------------------------------------------------------
# global current context

_CTX = None


def ctx():
    if _CTX is None:
        raise RuntimeError("no active SRX path context")
    return _CTX


def set_ctx(c):
    global _CTX
    _CTX = c


def have_ctx():
    return _CTX is not None


# ----------------------------------------------------------------------------
# polynomials: dict {monomial: Fraction}, monomial = tuple of (sid, exp) sorted

ONE = ()


def _to_fraction(x):
    if isinstance(x, Fraction):
        return x
    if isinstance(x, bool):
        return Fraction(int(x))
    if isinstance(x, int):
        return Fraction(x)
    if isinstance(x, float):
        if math.isfinite(x):
            return Fraction(x)
        raise CutPath("ieee_special", "non-finite float meets symbolic arithmetic")
    if isinstance(x, numbers.Integral):
        return Fraction(int(x))
    if isinstance(x, numbers.Real):
        xf = float(x)
        if math.isfinite(xf):
            # numpy float32/float16/longdouble: exact through python float for <=64 bit
            return Fraction(xf)
        raise CutPath("ieee_special", "non-finite float meets symbolic arithmetic")
    raise TypeError(type(x))


def mono_mul(a, b):
    if not a:
        return b
    if not b:
        return a
    out = []
    i = j = 0
    la, lb = len(a), len(b)
    while i < la and j < lb:
        sa, ea = a[i]
        sb, eb = b[j]
        if sa == sb:
            out.append((sa, ea + eb))
            i += 1
            j += 1
        elif sa < sb:
            out.append(a[i])
            i += 1
        else:
            out.append(b[j])
            j += 1
    if i < la:
        out.extend(a[i:])
    if j < lb:
        out.extend(b[j:])
    return tuple(out)


def mono_div(a, b):
    """a / b if b divides a else None"""
    if not b:
        return a
    out = []
    i = 0
    la = len(a)
    for sb, eb in b:
        while i < la and a[i][0] < sb:
            out.append(a[i])
            i += 1
        if i >= la or a[i][0] != sb or a[i][1] < eb:
            return None
        if a[i][1] > eb:
            out.append((sb, a[i][1] - eb))
        i += 1
    out.extend(a[i:])
    return tuple(out)


def mono_deg(m):
    return sum(e for _, e in m)


def p_const(c):
    c = _to_fraction(c)
    return {ONE: c} if c != 0 else {}


def p_add(a, b):
    if not a:
        return b
    if not b:
        return a
    if len(a) < len(b):
        a, b = b, a
    out = dict(a)
    for m, c in b.items():
        v = out.get(m)
        if v is None:
            out[m] = c
        else:
            v = v + c
            if v == 0:
                del out[m]
            else:
                out[m] = v
    return out


def p_neg(a):
    return {m: -c for m, c in a.items()}


def p_sub(a, b):
    return p_add(a, p_neg(b))


def p_scale(a, k):
    if k == 0:
        return {}
    if k == 1:
        return a
    return {m: c * k for m, c in a.items()}


def p_mul(a, b):
    if not a or not b:
        return {}
    if len(a) == 1 and ONE in a:
        return p_scale(b, a[ONE])
    if len(b) == 1 and ONE in b:
        return p_scale(a, b[ONE])
    out = {}
    c = _CTX
    rules = c.rule_syms if c is not None else None
    for ma, ca in a.items():
        for mb, cb in b.items():
            m = mono_mul(ma, mb)
            k = ca * cb
            if rules and any(s in rules for s, _ in m):
                for m2, k2 in c.rewrite_mono(m, k).items():
                    v = out.get(m2)
                    if v is None:
                        out[m2] = k2
                    else:
                        v = v + k2
                        if v == 0:
                            del out[m2]
                        else:
                            out[m2] = v
                continue
            v = out.get(m)
            if v is None:
                out[m] = k
            else:
                v = v + k
                if v == 0:
                    del out[m]
                else:
                    out[m] = v
    return out


def p_is_const(a):
    return not a or (len(a) == 1 and ONE in a)


def p_const_value(a):
    return a.get(ONE, Fraction(0)) if a else Fraction(0)


def p_key(a):
    return tuple(sorted(a.items()))


def p_syms(a):
    s = set()
    for m in a:
        for sid, _ in m:
            s.add(sid)
    return s


def _lead(a):
    # graded lex leading monomial
    return max(a.keys(), key=lambda m: (mono_deg(m), m))


def p_divide_exact(a, b, max_steps=400):
    """try exact division a / b; returns quotient poly or None"""
    if not b:
        return None
    if not a:
        return {}
    if len(b) == 1:
        (mb, cb), = b.items()
        out = {}
        for m, c in a.items():
            q = mono_div(m, mb)
            if q is None:
                return None
            out[q] = c / cb
        return out
    lb = _lead(b)
    cb = b[lb]
    rem = dict(a)
    quo = {}
    steps = 0
    while rem:
        steps += 1
        if steps > max_steps:
            return None
        lr = _lead(rem)
        q = mono_div(lr, lb)
        if q is None:
            return None
        k = rem[lr] / cb
        quo = p_add(quo, {q: k})
        rem = p_sub(rem, p_mul_raw({q: k}, b))
    return quo


def p_mul_raw(a, b):
    out = {}
    for ma, ca in a.items():
        for mb, cb in b.items():
            m = mono_mul(ma, mb)
            v = out.get(m)
            k = ca * cb
            if v is None:
                out[m] = k
            else:
                v = v + k
                if v == 0:
                    del out[m]
                else:
                    out[m] = v
    return out


# ----------------------------------------------------------------------------
# symbols


class Sym:
    __slots__ = ("sid", "name", "kind", "z3v", "defn", "is_input")

    def __init__(self, sid, name, kind, defn=None):
        self.sid = sid
        self.name = name
        self.kind = kind
        self.z3v = z3.Real(name)
        self.defn = defn
        self.is_input = kind in ("input", "uf")


# ----------------------------------------------------------------------------
# SymBool


class SymBool:
    """boolean AST: ('c', bool) | (op, poly) with op in lt,le,eq,ne meaning poly OP 0
    | ('and', a, b) | ('or', a, b) | ('not', a)"""
    __slots__ = ("node", "_z3")
    __array_priority__ = 1000

    def __init__(self, node):
        self.node = node
        self._z3 = None

    # -- construction helpers
    @staticmethod
    def const(v):
        return TRUE if v else FALSE

    @staticmethod
    def cmp(op, poly):
        if p_is_const(poly):
            c = p_const_value(poly)
            return SymBool.const({"lt": c < 0, "le": c <= 0, "eq": c == 0, "ne": c != 0}[op])
        return SymBool((op, poly))

    @property
    def is_const(self):
        return self.node[0] == "c"

    @property
    def value(self):
        return self.node[1]

    def __and__(self, other):
        other = as_symbool(other)
        if other is NotImplemented:
            return NotImplemented
        if self.is_const:
            return other if self.value else FALSE
        if other.is_const:
            return self if other.value else FALSE
        if self is other:
            return self
        return SymBool(("and", self, other))

    __rand__ = __and__

    def __or__(self, other):
        other = as_symbool(other)
        if other is NotImplemented:
            return NotImplemented
        if self.is_const:
            return TRUE if self.value else other
        if other.is_const:
            return TRUE if other.value else self
        if self is other:
            return self
        return SymBool(("or", self, other))

    __ror__ = __or__

    def __invert__(self):
        n = self.node
        if n[0] == "c":
            return SymBool.const(not n[1])
        if n[0] == "not":
            return n[1]
        if n[0] == "lt":   # not (p < 0)  ==  -p <= 0
            return SymBool(("le", p_neg(n[1])))
        if n[0] == "le":
            return SymBool(("lt", p_neg(n[1])))
        if n[0] == "eq":
            return SymBool(("ne", n[1]))
        if n[0] == "ne":
            return SymBool(("eq", n[1]))
        return SymBool(("not", self))

    def __xor__(self, other):
        other = as_symbool(other)
        if other is NotImplemented:
            return NotImplemented
        return (self & ~other) | (~self & other)

    __rxor__ = __xor__

    def __eq__(self, other):
        o = as_symbool(other)
        if o is NotImplemented:
            return NotImplemented
        return ~(self ^ o)

    def __ne__(self, other):
        o = as_symbool(other)
        if o is NotImplemented:
            return NotImplemented
        return self ^ o

    __hash__ = object.__hash__

    def implies(self, other):
        return (~self) | as_symbool(other)

    def __bool__(self):
        if self.node[0] == "c":
            return self.node[1]
        return ctx().branch(self)

    def __repr__(self):
        if self.is_const:
            return "SymBool(%s)" % self.value
        return "SymBool(%s)" % self.z3()

    # -- evaluation under an input valuation
    def evaluate(self, ev):
        n = self.node
        k = n[0]
        if k == "c":
            return n[1]
        if k in ("lt", "le", "eq", "ne"):
            v = ev.poly(n[1])
            if v is None:
                return None
            return {"lt": v < 0, "le": v <= 0, "eq": v == 0, "ne": v != 0}[k]
        if k == "not":
            v = n[1].evaluate(ev)
            return None if v is None else (not v)
        a = n[1].evaluate(ev)
        b = n[2].evaluate(ev)
        if k == "and":
            if a is False or b is False:
                return False
            if a is None or b is None:
                return None
            return True
        if k == "or":
            if a is True or b is True:
                return True
            if a is None or b is None:
                return None
            return False
        raise AssertionError(k)

    def z3(self):
        if self._z3 is None:
            n = self.node
            k = n[0]
            if k == "c":
                r = z3.BoolVal(n[1])
            elif k in ("lt", "le", "eq", "ne"):
                r = _cmp_to_z3(k, n[1])
            elif k == "not":
                r = z3.Not(n[1].z3())
            elif k == "and":
                r = z3.And(n[1].z3(), n[2].z3())
            elif k == "or":
                r = z3.Or(n[1].z3(), n[2].z3())
            else:
                raise AssertionError(k)
            self._z3 = r
        return self._z3

    def key(self):
        return self.z3().get_id()


TRUE = SymBool(("c", True))
FALSE = SymBool(("c", False))


def as_symbool(x):
    if isinstance(x, SymBool):
        return x
    if isinstance(x, (bool,)):
        return TRUE if x else FALSE
    try:
        import numpy as _np
        if isinstance(x, _np.bool_):
            return TRUE if bool(x) else FALSE
    except Exception:
        pass
    if isinstance(x, int) and x in (0, 1):
        return TRUE if x else FALSE
    return NotImplemented


def _cmp_to_z3(op, poly):
    # move negative-coefficient terms to the right-hand side: friendlier to read, same meaning
    e = poly_to_z3(poly)
    zero = z3.RealVal(0)
    if op == "lt":
        return e < zero
    if op == "le":
        return e <= zero
    if op == "eq":
        return e == zero
    return e != zero


def poly_to_z3(poly):
    c = ctx()
    cache = c.mono_z3
    terms = []
    for m, k in poly.items():
        if not m:
            terms.append(_rat(k))
            continue
        prod = cache.get(m)
        if prod is None:
            factors = []
            for sid, e in m:
                v = c.syms[sid].z3v
                factors.extend([v] * e)
            prod = factors[0] if len(factors) == 1 else z3.Product(factors)
            cache[m] = prod
        if k != 1:
            prod = _rat(k) * prod
        terms.append(prod)
    if not terms:
        return z3.RealVal(0)
    if len(terms) == 1:
        return terms[0]
    return z3.Sum(terms)


def _rat(k):
    k = Fraction(k)
    if k.denominator == 1:
        return z3.RealVal(k.numerator)
    return z3.RealVal("%d/%d" % (k.numerator, k.denominator))


# ----------------------------------------------------------------------------
# SymReal


def _lift(x):
    """number / SymReal -> poly, or None if not numeric"""
    if isinstance(x, SymReal):
        return x.p
    if isinstance(x, (bool, int, float, Fraction)):
        return p_const(x)
    if isinstance(x, numbers.Real):
        return p_const(x)
    return None


def _isnf(o):
    return isinstance(o, float) and not math.isfinite(o)


def _sign_fork(x):
    """python sign of a SymReal on this path (forks)"""
    if bool(x > 0):
        return 1
    if bool(x < 0):
        return -1
    return 0


def _nf(op, x, o, swapped):
    """IEEE semantics of `x op o` (or `o op x` when swapped) for symbolic finite x and non-finite float o"""
    if math.isnan(o):
        return float("nan")
    if op == "add":
        return o
    if op == "sub":
        return o if swapped else -o
    if op == "mul":
        s = _sign_fork(x)
        return float("nan") if s == 0 else (o if s > 0 else -o)
    if op == "div":
        if swapped:     # inf / x
            s = _sign_fork(x)
            return o if s >= 0 else -o      # inf/0 = inf (sign of zero ignored)
        return 0.0      # x / inf
    raise AssertionError(op)


class SymReal:
    __slots__ = ("p",)
    # no __array_priority__ : would break ndarray + SymReal

    def __init__(self, p):
        self.p = p

    # -- introspection
    @property
    def is_const(self):
        return p_is_const(self.p)

    @property
    def const_value(self):
        return p_const_value(self.p)

    def key(self):
        return p_key(self.p)

    def z3(self):
        return poly_to_z3(self.p)

    def __repr__(self):
        if self.is_const:
            return "SymReal(%s)" % self.const_value
        return "SymReal(%s)" % fmt_poly(self.p)

    __str__ = __repr__

    def __format__(self, spec):
        return repr(self)

    __hash__ = object.__hash__

    # -- arithmetic
    def __add__(self, o):
        if _isnf(o):
            return _nf("add", self, o, False)
        q = _lift(o)
        if q is None:
            return NotImplemented
        return SymReal(p_add(self.p, q))

    __radd__ = __add__

    def __sub__(self, o):
        if _isnf(o):
            return _nf("sub", self, o, False)
        q = _lift(o)
        if q is None:
            return NotImplemented
        return SymReal(p_sub(self.p, q))

    def __rsub__(self, o):
        if _isnf(o):
            return _nf("sub", self, o, True)
        q = _lift(o)
        if q is None:
            return NotImplemented
        return SymReal(p_sub(q, self.p))

    def __mul__(self, o):
        if _isnf(o):
            return _nf("mul", self, o, False)
        q = _lift(o)
        if q is None:
            return NotImplemented
        return SymReal(p_mul(self.p, q))

    __rmul__ = __mul__

    def __neg__(self):
        return SymReal(p_neg(self.p))

    def __pos__(self):
        return self

    def __truediv__(self, o):
        if _isnf(o):
            return _nf("div", self, o, False)
        q = _lift(o)
        if q is None:
            return NotImplemented
        return divide(self.p, q)

    def __rtruediv__(self, o):
        if _isnf(o):
            return _nf("div", self, o, True)
        q = _lift(o)
        if q is None:
            return NotImplemented
        return divide(q, self.p)

    def __pow__(self, k):
        if isinstance(k, SymReal):
            if k.is_const:
                k = k.const_value
            else:
                raise Unsupported("symbolic exponent")
        kf = _to_fraction(k)
        if kf.denominator > 64:
            # float exponents such as 1.0/5.0 or 0.55/5: snap to the nearby small rational (the float pow is itself rounded)
            kf2 = kf.limit_denominator(2000)
            if abs(kf2 - kf) < Fraction(1, 10**12):
                kf = kf2
        if kf.denominator == 1:
            n = int(kf)
            if n >= 0:
                r = p_const(1)
                base = self.p
                while n:
                    if n & 1:
                        r = p_mul(r, base)
                    n >>= 1
                    if n:
                        base = p_mul(base, base)
                return SymReal(r)
            return divide(p_const(1), (self ** (-n)).p)
        if kf == Fraction(1, 2):
            return self.sqrt()
        return ctx().uf_pow(self, kf)

    def __rpow__(self, base):
        if self.is_const:
            return _to_fraction(base) ** self.const_value
        raise Unsupported("symbolic exponent")

    def __abs__(self):
        return sym_abs(self)

    def sqrt(self):
        return sym_sqrt(self)

    def conjugate(self):
        return self

    conj = conjugate

    @property
    def real(self):
        return self

    @property
    def imag(self):
        return SymReal({})

    # numpy object loops look for these methods
    def arctan(self):
        return ctx().uf_fun("arctan", self)

    def log(self):
        return ctx().uf_fun("log", self)

    def exp(self):
        return ctx().uf_fun("exp", self)

    def reciprocal(self):
        return divide(p_const(1), self.p)

    def isfinite(self):
        return True

    def square(self):
        return self * self

    # -- comparisons
    def _cmp(self, o, op, swap=False):
        if isinstance(o, float) and not math.isfinite(o):
            return _cmp_nonfinite(o, op, swap)
        q = _lift(o)
        if q is None:
            return NotImplemented
        d = p_sub(q, self.p) if swap else p_sub(self.p, q)
        return SymBool.cmp(op, d)

    def __lt__(self, o):
        return self._cmp(o, "lt")

    def __le__(self, o):
        return self._cmp(o, "le")

    def __gt__(self, o):
        return self._cmp(o, "lt", swap=True)

    def __ge__(self, o):
        return self._cmp(o, "le", swap=True)

    def __eq__(self, o):
        r = self._cmp(o, "eq")
        return r

    def __ne__(self, o):
        r = self._cmp(o, "ne")
        return r

    # -- conversions
    def __bool__(self):
        return bool(self != 0)

    def __float__(self):
        if self.is_const:
            return float(self.const_value)
        # concolic fallback: the code under test needs a machine number (float(x), math.ceil(x), ...).  The value of x under the path's
        # running model is PINNED (x == v joins the path condition) and execution goes on with it: everything found further down is a real
        # behaviour of the code (and replays), but the other values of x are not explored - counted as cut_paths['float_pinned'], so an
        # instance that pinned anything is not reported as exhaustive
        return ctx().pin_float(self)

    def __int__(self):
        if self.is_const:
            return math.trunc(self.const_value)
        return ctx().choose_int(self)

    def __index__(self):
        if self.is_const:
            if self.const_value.denominator == 1:
                return int(self.const_value)
            raise TypeError("non-integer value used as index")
        # an index computed from symbolic data (e.g. where(cond, j_upper, j_lower)): the code needs a concrete value -> fork
        return ctx().choose_int(self)

    def __round__(self, n=None):
        raise Unsupported("round() of symbolic")

    def __array__(self, dtype=None, copy=None):
        import numpy as np
        a = np.empty((), dtype=object)
        a[()] = self
        return a

    # so that 0-d usage `x.dtype`, `x.shape` in the code under test works like numpy scalars
    @property
    def dtype(self):
        import numpy as np
        return np.dtype(object)

    @property
    def shape(self):
        return ()

    @property
    def ndim(self):
        return 0

    def reshape(self, *shape):
        import numpy as np
        from .symarray import SymArray
        a = np.empty((), dtype=object)
        a[()] = self
        return a.reshape(*shape).view(SymArray)

    def item(self):
        return self

    def copy(self):
        return self

    def astype(self, dt, **kw):
        import numpy as np
        if np.dtype(dt) == np.dtype(object):
            return self
        if self.is_const:
            return np.dtype(dt).type(float(self.const_value))
        raise Unsupported("astype(%s) of a symbolic value" % (dt,))


def _cmp_nonfinite(o, op, swap):
    # self OP o (or o OP self when swap)
    if math.isnan(o):
        return SymBool.const(op == "ne")
    pos = o > 0
    if op == "eq":
        return FALSE
    if op == "ne":
        return TRUE
    # lt / le
    if not swap:   # self < inf
        return SymBool.const(pos)
    return SymBool.const(not pos)  # inf < self


def fmt_poly(p, maxterms=12):
    c = _CTX
    parts = []
    for i, (m, k) in enumerate(sorted(p.items(), key=lambda it: (mono_deg(it[0]), it[0]))):
        if i >= maxterms:
            parts.append("...(%d terms)" % len(p))
            break
        names = []
        for sid, e in m:
            nm = c.syms[sid].name if c is not None and sid < len(c.syms) else "s%d" % sid
            names.append(nm if e == 1 else "%s^%d" % (nm, e))
        ks = str(k) if k.denominator < 10**6 else "%.6g" % float(k)
        parts.append(ks if not names else (("" if k == 1 else ks + "*") + "*".join(names)))
    return " + ".join(parts) if parts else "0"


def as_symreal(x):
    if isinstance(x, SymReal):
        return x
    if hasattr(x, "ndim") and hasattr(x, "reshape") and not isinstance(x, numbers.Number):
        if x.ndim == 0 or getattr(x, "size", 0) == 1:
            return as_symreal(x.reshape(-1)[0])
    q = _lift(x)
    if q is None:
        raise TypeError("not numeric: %r" % (type(x),))
    return SymReal(q)


def is_symbolic(x):
    return isinstance(x, (SymReal, SymBool))


# ----------------------------------------------------------------------------
# atoms


def _ieee_div_by_zero(a):
    """x / 0 with IEEE semantics: +-inf or nan as python floats (they stay concrete; mixing them with symbolic
    values later is cut as ieee_special)"""
    if p_is_const(a):
        v = p_const_value(a)
        return float("inf") if v > 0 else (float("-inf") if v < 0 else float("nan"))
    x = SymReal(a)
    if bool(x > 0):
        return float("inf")
    if bool(x < 0):
        return float("-inf")
    return float("nan")


def divide(a, b):
    """a / b for polys"""
    if p_is_const(b):
        cb = p_const_value(b)
        if cb == 0:
            return _ieee_div_by_zero(a)
        return SymReal(p_scale(a, 1 / cb))
    c = ctx()
    if not c.nonzero(b):
        return _ieee_div_by_zero(a)
    if not a:
        return SymReal({})
    q = p_divide_exact(a, b)
    if q is not None:
        return SymReal(q)
    return c.quotient(a, b)


def sym_ite(cond, a, b):
    cond = as_symbool(cond)
    if cond is NotImplemented:
        raise TypeError("ite condition")
    if cond.is_const:
        return a if cond.value else b
    a = as_symreal(a)
    b = as_symreal(b)
    if a.p == b.p:
        return a
    return ctx().ite(cond, a, b)


def sym_abs(x):
    x = as_symreal(x)
    if x.is_const:
        return SymReal(p_const(abs(x.const_value)))
    # |k*m| for a single even monomial etc. is not simplified; generic atom
    return ctx().abs_atom(x)


def sym_max(a, b):
    if _isnf(a) or _isnf(b):
        if _isnf(a) and _isnf(b):
            return max(a, b)
        nf, other = (a, b) if _isnf(a) else (b, a)
        if math.isnan(nf):
            return nf
        return nf if nf > 0 else other
    a = as_symreal(a)
    b = as_symreal(b)
    return sym_ite(a >= b, a, b)


def sym_min(a, b):
    if _isnf(a) or _isnf(b):
        if _isnf(a) and _isnf(b):
            return min(a, b)
        nf, other = (a, b) if _isnf(a) else (b, a)
        if math.isnan(nf):
            return nf
        return nf if nf < 0 else other
    a = as_symreal(a)
    b = as_symreal(b)
    return sym_ite(a <= b, a, b)


def sym_sign(x):
    x = as_symreal(x)
    if x.is_const:
        v = x.const_value
        return SymReal(p_const((v > 0) - (v < 0)))
    return ctx().sign_atom(x)


def sym_sqrt(x):
    x = as_symreal(x)
    if x.is_const:
        v = x.const_value
        if v < 0:
            raise CutPath("ieee_special", "sqrt of negative constant")
        n, d = v.numerator, v.denominator
        rn, rd = math.isqrt(n), math.isqrt(d)
        if rn * rn == n and rd * rd == d:
            return SymReal(p_const(Fraction(rn, rd)))
    return ctx().sqrt_atom(x)


# ----------------------------------------------------------------------------
# evaluation of polys under a valuation of input symbols


class Evaluator:
    def __init__(self, c, inputs):
        self.c = c
        self.vals = dict(inputs)   # sid -> Fraction
        self.bad = set()

    def sym(self, sid):
        v = self.vals.get(sid)
        if v is not None:
            return v
        if sid in self.bad:
            return None
        s = self.c.syms[sid]
        v = None
        d = s.defn
        if d is None:
            v = Fraction(0)     # unconstrained since the last model: any value extends the model
        else:
            kind = d[0]
            if kind == "quot":
                a = self.poly(d[1])
                b = self.poly(d[2])
                if a is not None and b is not None and b != 0:
                    v = a / b
            elif kind == "ite":
                cv = d[1].evaluate(self)
                if cv is not None:
                    v = self.poly(d[2].p if cv else d[3].p)
            elif kind == "abs":
                a = self.poly(d[1])
                if a is not None:
                    v = abs(a)
            elif kind == "sign":
                a = self.poly(d[1])
                if a is not None:
                    v = Fraction((a > 0) - (a < 0))
            elif kind == "sqrt":
                a = self.poly(d[1])
                if a is not None and a >= 0:
                    n, dd = a.numerator, a.denominator
                    rn, rd = math.isqrt(n), math.isqrt(dd)
                    if rn * rn == n and rd * rd == dd:
                        v = Fraction(rn, rd)
            elif kind == "opaque":
                v = None
        if v is None:
            self.bad.add(sid)
        else:
            self.vals[sid] = v
        return v

    def poly(self, p):
        tot = Fraction(0)
        for m, k in p.items():
            t = k
            for sid, e in m:
                v = self.sym(sid)
                if v is None:
                    return None
                t = t * (v ** e)
            tot += t
        return tot

    def real(self, x):
        if isinstance(x, SymReal):
            return self.poly(x.p)
        return _to_fraction(x)


# ----------------------------------------------------------------------------
# path context


class PathCtx:
    """One symbolic path: symbol table, definitional constraints, decisions, solver."""

    strict_inputs = False

    def __init__(self, explorer, prefix, prefix_model=None):
        self.ex = explorer
        self.prefix_model = prefix_model
        self.prefix = prefix          # list of decisions; last may be ('force', v) / ('intother', excl)
        self.pos = 0
        self.decisions = []           # decisions actually taken (concrete values)
        self.syms = []
        self.by_name = {}
        self.rule_syms = {}           # sid -> (mono_b, poly_a_over_coef)
        self.memo = {}
        self.solver = explorer.new_solver()
        self.n_assert = 0
        self.model_inputs = {}        # sid -> Fraction : a valuation satisfying the pc (or None = unknown)
        self.model_ok = True
        self.evaluator = None
        self.checks = []
        self.notes = {}
        self.uf_apps = {}             # name -> list of (args polys, outs syms)
        self.n_branch = 0
        self.assumed = []
        self.trace = []               # human readable decisions
        self.t_solver = 0.0
        self.n_queries = 0
        self.pc_terms = []            # SymBools of the path condition (for reporting)
        self.ackermann = True
        self.mono_z3 = {}
        self.decided = {}             # cond key -> value already taken on this path
        if prefix:
            self.model_ok = False     # no valid model until the forced decision at the end of the prefix is checked

    # ---- symbols
    def new_sym(self, name, kind, defn=None):
        base = name
        i = 0
        while name in self.by_name:
            i += 1
            name = "%s#%d" % (base, i)
        s = Sym(len(self.syms), name, kind, defn)
        self.syms.append(s)
        self.by_name[name] = s
        return s

    def real(self, name):
        s = self.by_name.get(name)
        if s is None:
            s = self.new_sym(name, "input")
        return SymReal({((s.sid, 1),): Fraction(1)})

    def sym_real(self, s):
        return SymReal({((s.sid, 1),): Fraction(1)})

    # ---- solver plumbing
    def _add(self, z3expr):
        self.solver.add(z3expr)
        self.n_assert += 1

    def add_def(self, sb):
        """definitional constraint: functionally determined, keeps the model extendable"""
        self._add(sb.z3() if isinstance(sb, SymBool) else sb)

    def _check(self, *extra):
        """portfolio: fresh (simplify, solve-eqs, nlsat) solver first, the incremental smt solver second"""
        t0 = time.time()
        p0 = time.process_time()
        IN_SOLVER[0] += 1
        try:
            return self._check_inner(t0, *extra)
        finally:
            IN_SOLVER[0] -= 1
            IN_SOLVER[1] += time.process_time() - p0

    def _check_inner(self, t0, *extra):
        self.n_queries += 1
        self.ex.stats["queries"] += 1
        self._last_model = None
        r = z3.unknown
        mode = self.ex.solver_mode
        if mode != "inc":
            try:
                s = self.ex.tactic.solver()
                s.set("timeout", self.ex.tactic_timeout_ms)
                s.add(self.solver.assertions())
                if extra:
                    s.add(*extra)
                r = s.check()
                if r == z3.sat:
                    self._last_model = s.model()
            except z3.Z3Exception:
                r = z3.unknown
        if r == z3.unknown and mode != "tactic":
            try:
                r = self.solver.check(*extra)
                if r == z3.sat:
                    self._last_model = self.solver.model()
            except z3.Z3Exception:
                r = z3.unknown
        dt = time.time() - t0
        self.t_solver += dt
        self.ex.stats["solver_s"] += dt
        if dt > self.ex.stats.get("slowest_query_s", 0):
            self.ex.stats["slowest_query_s"] = round(dt, 3)
        self.ex.tick()
        return r

    def _model_from_solver(self):
        m = self._last_model
        if m is None:
            self.model_ok = False
            return
        vals = {}
        ok = True
        for s in self.syms:
            if s.defn is not None:
                continue
            v = m.eval(s.z3v, model_completion=True)
            if z3.is_rational_value(v):
                vals[s.sid] = Fraction(v.numerator_as_long(), v.denominator_as_long())
            elif z3.is_algebraic_value(v):
                ok = False
                break
            else:
                ok = False
                break
        if ok:
            self.model_inputs = vals
            self.model_ok = True
            self.evaluator = None
        else:
            self.model_ok = False

    def get_evaluator(self):
        if not self.model_ok:
            return None
        if self.evaluator is None:
            self.evaluator = Evaluator(self, self.model_inputs)
        return self.evaluator

    def model_value(self, sb_or_real):
        ev = self.get_evaluator()
        if ev is None:
            return None
        if isinstance(sb_or_real, SymBool):
            return sb_or_real.evaluate(ev)
        return ev.real(sb_or_real)

    @property
    def replaying(self):
        """still inside the decision prefix: everything here was already executed (and checked) by the parent path"""
        return self.pos < len(self.prefix)

    # ---- assumptions / branching
    def assume(self, cond):
        cond = as_symbool(cond)
        if cond.is_const:
            if not cond.value:
                raise Infeasible("assumption is false")
            return
        self.assumed.append(cond)
        self.pc_terms.append(cond)
        self._add(cond.z3())
        self.decided[cond.key()] = (True, cond)
        if self.replaying:
            return
        v = self.model_value(cond)
        if v is True:
            return
        r = self._check()
        if r == z3.unsat:
            raise Infeasible("assumption infeasible")
        if r == z3.sat:
            self._model_from_solver()
        else:
            self.model_ok = False

    def _take(self, cond, value, forced_check=False):
        c = cond if value else ~cond
        self.pc_terms.append(c)
        self._add(c.z3())
        self.decisions.append(bool(value))
        if forced_check:
            r = self._check()
            if r == z3.unsat:
                raise Infeasible()
            if r == z3.sat:
                self._model_from_solver()
            else:
                self.model_ok = False
                self.ex.stats["unknown_feasibility"] += 1
        return bool(value)

    def branch(self, cond):
        k = cond.key()
        known = self.decided.get(k)
        if known is not None:
            return known[0]
        ncond = ~cond
        known = self.decided.get(ncond.key())
        if known is not None:
            return not known[0]
        r = self._branch(cond)
        self.decided[k] = (r, cond)     # keep the SymBool alive: z3 AST ids are only unique among live ASTs
        return r

    def _branch(self, cond):
        self.n_branch += 1
        if self.n_branch > self.ex.max_branches:
            raise BudgetHit("max_branches")
        i = self.pos
        self.pos += 1
        if i < len(self.prefix):
            d = self.prefix[i]
            last = (i == len(self.prefix) - 1)
            if isinstance(d, tuple) and d[0] == "force":
                if self.prefix_model is not None:
                    r = self._take(cond, d[1], forced_check=False)
                    self.model_inputs = dict(self.prefix_model)
                    self.model_ok = True
                    self.evaluator = None
                    return r
                return self._take(cond, d[1], forced_check=True)
            if not isinstance(d, bool):
                raise RuntimeError("non-deterministic replay: expected branch, got %r" % (d,))
            # replayed decision (known feasible); the model is recomputed lazily at the forced one
            return self._take(cond, d, forced_check=False)
        # new decision
        v = self.model_value(cond)
        if v is None:
            # need the solver: try True side
            self.solver.push()
            self.solver.add(cond.z3())
            r = self._check()
            if r == z3.sat:
                self._model_from_solver()
                self.solver.pop()
                self._push_other(cond, False)
                return self._take(cond, True)
            self.solver.pop()
            if r == z3.unsat:
                # only False can be feasible (pc itself is feasible)
                return self._take(cond, False, forced_check=not self.model_ok)
            # unknown: treat both as feasible
            self.ex.stats["unknown_feasibility"] += 1
            self.ex.push_alt(self.decisions + [("force", False)], None)
            self.model_ok = False
            return self._take(cond, True)
        self._push_other(cond, not v)
        return self._take(cond, v)

    def _push_other(self, cond, value):
        """eagerly decide whether the other side of a new decision is feasible; push it with its model if so"""
        other = cond if value else ~cond
        self.solver.push()
        try:
            self.solver.add(other.z3())
            r = self._check()
            if r == z3.unsat:
                return
            model = None
            if r == z3.sat:
                model = self._extract_inputs(self._last_model)
            else:
                self.ex.stats["unknown_feasibility"] += 1
            self.ex.push_alt(self.decisions + [("force", value)], model)
        finally:
            self.solver.pop()

    def _extract_inputs(self, m):
        vals = {}
        for s in self.syms:
            if s.defn is not None:
                continue
            v = m.eval(s.z3v, model_completion=True)
            if z3.is_rational_value(v):
                vals[s.sid] = Fraction(v.numerator_as_long(), v.denominator_as_long())
            else:
                return None
        return vals

    def _model_from_solver_scoped(self):
        self._model_from_solver()

    def nonzero(self, bpoly):
        """fork on b != 0 (decided once per path); returns the truth value taken"""
        cond = SymBool.cmp("ne", bpoly)
        if cond.is_const:
            return cond.value
        return bool(cond)

    def pin_float(self, x):
        self.n_branch += 1
        i = self.pos
        self.pos += 1
        if i < len(self.prefix):
            d = self.prefix[i]
            if not (isinstance(d, tuple) and d[0] == "pin"):
                raise RuntimeError("non-deterministic replay: expected pin, got %r" % (d,))
            v = d[1]
        else:
            v = self.model_value(x)
            if v is None:
                r = self._check()
                if r == z3.sat:
                    self._model_from_solver()
                    v = self.model_value(x)
                if v is None:
                    raise Unsupported("float() of a symbolic value (no model to pin it to)")
            self.ex.stats["cut"]["float_pinned"] = self.ex.stats["cut"].get("float_pinned", 0) + 1
            self.ex.exhausted = False
        b = (x <= v) & (x >= v)
        self.pc_terms.append(b)
        self._add(b.z3())
        self.decisions.append(("pin", v))
        return float(v)

    def choose_int(self, x):
        """int(x) for symbolic x: enumerate feasible truncations as decisions"""
        self.n_branch += 1
        i = self.pos
        self.pos += 1

        def bucket(k):
            k = int(k)
            if k > 0:
                return (x >= k) & (x < k + 1)
            if k < 0:
                return (x > k - 1) & (x <= k)
            return (x > -1) & (x < 1)

        excl = []
        if i < len(self.prefix):
            d = self.prefix[i]
            if isinstance(d, tuple) and d[0] == "intother":
                excl = list(d[1])
                for k in excl:
                    self._add((~bucket(k)).z3())
                r = self._check()
                if r == z3.unsat:
                    raise Infeasible()
                if r != z3.sat:
                    self.ex.stats["unknown_feasibility"] += 1
                    raise CutPath("int_unknown", "solver unknown while enumerating int()")
                self._model_from_solver()
                if not self.model_ok:
                    raise CutPath("int_unknown", "irrational model while enumerating int()")
            elif isinstance(d, tuple) and d[0] == "int":
                k = d[1]
                b = bucket(k)
                self.pc_terms.append(b)
                self._add(b.z3())
                self.decisions.append(("int", k))
                return k
            else:
                raise RuntimeError("non-deterministic replay: expected int, got %r" % (d,))
        v = self.model_value(x)
        if v is None:
            r = self._check()
            if r == z3.sat:
                self._model_from_solver()
                v = self.model_value(x)
            if v is None:
                raise CutPath("int_unknown", "cannot evaluate int() argument")
        k = math.trunc(v)
        if len(excl) + 1 > self.ex.max_int_choices:
            raise CutPath("int_enum_limit", "more than %d values of int()" % self.ex.max_int_choices)
        b = bucket(k)
        # eager: is any other truncation feasible at all?
        self.solver.push()
        try:
            for kk in excl:
                self.solver.add((~bucket(kk)).z3())
            self.solver.add((~b).z3())
            r = self._check()
        finally:
            self.solver.pop()
        if r != z3.unsat:
            self.ex.push_alt(self.decisions + [("intother", tuple(excl + [k]))], None)
        self.pc_terms.append(b)
        self._add(b.z3())
        self.decisions.append(("int", k))
        return k

    # ---- atoms
    def quotient(self, a, b):
        # normalise the scale of b so that a/b and (k a)/(k b) share an atom
        lb = _lead(b)
        cb = b[lb]
        if cb != 1:
            a = p_scale(a, 1 / cb)
            b = p_scale(b, 1 / cb)
        key = ("quot", p_key(a), p_key(b))
        r = self.memo.get(key)
        if r is not None:
            return r
        s = self.new_sym("q%d" % len(self.syms), "quot", ("quot", a, b))
        q = self.sym_real(s)
        if len(b) == 1:
            # rewrite rule q * mono_b -> a  (kept in the normal form)
            (mb, _), = b.items()
            self.rule_syms[s.sid] = (mb, a)
        self._add(poly_to_z3(p_mul_raw(q.p, b)) == poly_to_z3(a))
        self.memo[key] = q
        return q

    def rewrite_mono(self, m, k):
        """apply q*mono_b -> a rules to monomial m (coef k); returns a poly"""
        for sid, e in m:
            rule = self.rule_syms.get(sid)
            if rule is None:
                continue
            mb, a = rule
            target = mono_mul(((sid, 1),), mb)
            rest = mono_div(m, target)
            if rest is None:
                continue
            # m = rest * q * mb  ->  rest * a
            return p_mul({rest: k}, a)
        return {m: k}

    def ite(self, cond, a, b):
        key = ("ite", cond.key(), a.key(), b.key())
        r = self.memo.get(key)
        if r is not None:
            return r
        s = self.new_sym("ite%d" % len(self.syms), "ite", ("ite", cond, a, b))
        v = self.sym_real(s)
        self._add(s.z3v == z3.If(cond.z3(), a.z3(), b.z3()))
        self.memo[key] = v
        return v

    def abs_atom(self, x):
        key = ("abs", x.key())
        r = self.memo.get(key)
        if r is not None:
            return r
        nk = ("abs", p_key(p_neg(x.p)))
        r = self.memo.get(nk)
        if r is not None:
            return r
        s = self.new_sym("abs%d" % len(self.syms), "abs", ("abs", x.p))
        v = self.sym_real(s)
        xz = x.z3()
        self._add(s.z3v == z3.If(xz >= 0, xz, -xz))
        self.memo[key] = v
        return v

    def sign_atom(self, x):
        key = ("sign", x.key())
        r = self.memo.get(key)
        if r is not None:
            return r
        s = self.new_sym("sgn%d" % len(self.syms), "sign", ("sign", x.p))
        v = self.sym_real(s)
        xz = x.z3()
        self._add(s.z3v == z3.If(xz > 0, z3.RealVal(1), z3.If(xz < 0, z3.RealVal(-1), z3.RealVal(0))))
        self.memo[key] = v
        return v

    def sqrt_atom(self, x):
        key = ("sqrt", x.key())
        r = self.memo.get(key)
        if r is not None:
            return r
        nonneg = x >= 0
        if not bool(nonneg):
            raise CutPath("ieee_special", "sqrt of a negative value")
        # sqrt(p^2) = |p| when x is syntactically a square of a single-symbol-free poly: try perfect square monomial
        s = self.new_sym("sqrt%d" % len(self.syms), "sqrt", ("sqrt", x.p))
        v = self.sym_real(s)
        self._add(z3.And(s.z3v >= 0, s.z3v * s.z3v == x.z3()))
        self.memo[key] = v
        return v

    def opaque(self, name, facts=None):
        s = self.new_sym(name, "opaque", ("opaque",))
        return self.sym_real(s)

    # ---- uninterpreted functions
    def uf(self, name, args, n_out, fresh=False):
        """application of UF `name` to a list of SymReal/number args; returns list of SymReal.
        congruence: syntactically equal args -> same symbols; otherwise Ackermann constraints."""
        polys = [as_symreal(a).p for a in args]
        key = ("uf", name, tuple(p_key(p) for p in polys))
        apps = self.uf_apps.setdefault(name, [])
        if not fresh:
            r = self.memo.get(key)
            if r is not None:
                return r
        idx = len(apps)
        outs = []
        for j in range(n_out):
            s = self.new_sym("%s_%d_%d" % (name, idx, j), "uf")
            outs.append(self.sym_real(s))
        if not fresh and self.ackermann:
            for (pargs, pouts) in apps:
                if len(pargs) != len(polys) or len(pouts) != n_out:
                    continue
                eqs = []
                trivially_diff = False
                for pa, pb in zip(pargs, polys):
                    d = p_sub(pa, pb)
                    if not d:
                        continue
                    if p_is_const(d):
                        trivially_diff = True
                        break
                    eqs.append(poly_to_z3(d) == 0)
                if trivially_diff:
                    continue
                concl = z3.And([o1.z3() == o2.z3() for o1, o2 in zip(pouts, outs)])
                self._add(z3.Implies(z3.And(eqs) if eqs else z3.BoolVal(True), concl))
        if not fresh and self.model_ok and apps:
            # keep the running model a model: equal args (under the model) -> equal outputs
            ev = self.get_evaluator()
            mine = [ev.poly(p) for p in polys]
            if all(v is not None for v in mine):
                for (pargs, pouts) in apps:
                    if len(pargs) != len(polys) or len(pouts) != n_out:
                        continue
                    theirs = [ev.poly(p) for p in pargs]
                    if theirs == mine:
                        for o1, o2 in zip(pouts, outs):
                            v = ev.real(o1)
                            (m2, _), = o2.p.items()
                            self.model_inputs[m2[0][0]] = v
                            ev.vals[m2[0][0]] = v
                        break
            else:
                self.model_ok = False
        apps.append((polys, outs))
        if not fresh:
            self.memo[key] = outs
        return outs

    def uf_fun(self, name, x):
        x = as_symreal(x)
        if x.is_const:
            return self.ex.const_fun(name, x.const_value)
        r = self.uf(name, [x], 1)[0]
        self.ex.fun_axioms(self, name, x, r)
        self.model_ok = False       # the axioms constrain the new symbol: the running model need not extend to it
        return r

    def uf_pow(self, x, kf):
        x = as_symreal(x)
        if x.is_const:
            return self.ex.const_pow(x.const_value, kf)
        r = self.uf("pow_%d_%d" % (kf.numerator, kf.denominator), [x], 1)[0]
        self.ex.pow_axioms(self, x, kf, r)
        self.model_ok = False
        return r

    # ---- assertions
    def check(self, name, cond, info=None, regions=None):
        return self.ex.do_check(self, name, cond, info, regions)

    def note(self, k, v):
        self.notes[k] = v

    def case(self, n=1):
        """count n distinct non-trivial cases decided inside this path (e.g. one rooted tree each)"""
        if not self.replaying:
            self.ex.stats["extra_cases"] = self.ex.stats.get("extra_cases", 0) + n

    # number-type-generic helpers (mirrored by ConcreteCtx)
    symbolic = True

    def eq(self, a, b, scale=1):
        nf = _nonfinite_pair(a, b)
        if nf is not None:
            return SymBool.const(nf[0] == nf[1])          # IEEE: nan equals nothing, inf only itself
        return as_symreal(a) == as_symreal(b)

    def le(self, a, b, scale=1):
        nf = _nonfinite_pair(a, b)
        if nf is not None:
            return SymBool.const(nf[0] <= nf[1]) if not (isinstance(nf[0], SymReal) or isinstance(nf[1], SymReal)) else (nf[0] <= nf[1])
        return as_symreal(a) <= as_symreal(b)

    def lt(self, a, b, scale=0):
        nf = _nonfinite_pair(a, b)
        if nf is not None:
            return SymBool.const(nf[0] < nf[1]) if not (isinstance(nf[0], SymReal) or isinstance(nf[1], SymReal)) else (nf[0] < nf[1])
        return as_symreal(a) < as_symreal(b)

    def all(self, conds):
        r = TRUE
        for c in conds:
            r = r & as_symbool(c)
        return r

    def any(self, conds):
        r = FALSE
        for c in conds:
            r = r | as_symbool(c)
        return r


def _scalar_of(x):
    if hasattr(x, "ndim") and hasattr(x, "reshape") and not isinstance(x, (numbers.Number, SymReal)):
        if x.ndim == 0 or getattr(x, "size", 0) == 1:
            return x.reshape(-1)[0]
    return x


def _nonfinite_pair(a, b):
    """(a, b) as scalars when one of them is a non-finite float, else None"""
    a, b = _scalar_of(a), _scalar_of(b)
    fa = isinstance(a, numbers.Real) and not isinstance(a, (bool, Fraction)) and not math.isfinite(float(a))
    fb = isinstance(b, numbers.Real) and not isinstance(b, (bool, Fraction)) and not math.isfinite(float(b))
    if not (fa or fb):
        return None
    a = float(a) if fa or not isinstance(a, SymReal) else a
    b = float(b) if fb or not isinstance(b, SymReal) else b
    return a, b


def _pathctx_array(self, x):
    from .symarray import sym_array
    return sym_array(x)


PathCtx.array = _pathctx_array
