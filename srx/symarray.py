"""ndarray subclass that keeps comparisons / logical ops on object arrays symbolic
(numpy's default OO->? loops would coerce every element through __bool__ and fork)."""
from __future__ import annotations

import numpy as np

from . import core
from .core import SymBool, SymReal, as_symbool, as_symreal

_CMP = {np.less, np.less_equal, np.greater, np.greater_equal, np.equal, np.not_equal}


def _is_boolish(x):
    return isinstance(x, (bool, np.bool_, SymBool))


def _b(x):
    if isinstance(x, np.bool_):
        return bool(x)
    return x


def _and(a, b):
    a, b = _b(a), _b(b)
    if isinstance(a, bool) and isinstance(b, bool):
        return a and b
    return as_symbool(a) & as_symbool(b)


def _or(a, b):
    a, b = _b(a), _b(b)
    if isinstance(a, bool) and isinstance(b, bool):
        return a or b
    return as_symbool(a) | as_symbool(b)


def _xor(a, b):
    a, b = _b(a), _b(b)
    if isinstance(a, bool) and isinstance(b, bool):
        return a != b
    return as_symbool(a) ^ as_symbool(b)


def _not(a):
    a = _b(a)
    if isinstance(a, bool):
        return not a
    if isinstance(a, SymBool):
        return ~a
    # numbers: logical_not(x) == (x == 0)
    return as_symreal(a) == 0


def _truth(a):
    a = _b(a)
    if isinstance(a, (bool, SymBool)):
        return a
    if isinstance(a, SymReal):
        return a != 0
    return bool(a)


def _num(f_sym, f_num):
    def g(*args):
        if any(isinstance(a, SymReal) for a in args):
            return f_sym(*args)
        return f_num(*args)
    return g


def _pymax(a, b):
    return a if a >= b else b


def _pymin(a, b):
    return a if a <= b else b


def _pysign(a):
    return int(a > 0) - int(a < 0)      # (numpy scalars compare to numpy bools, which cannot be subtracted)


_u_and = np.frompyfunc(lambda a, b: _and(_truth(a), _truth(b)), 2, 1)
_u_or = np.frompyfunc(lambda a, b: _or(_truth(a), _truth(b)), 2, 1)
_u_xor = np.frompyfunc(lambda a, b: _xor(_truth(a), _truth(b)), 2, 1)
_u_not = np.frompyfunc(_not, 1, 1)
_u_max = np.frompyfunc(_num(core.sym_max, _pymax), 2, 1)
_u_min = np.frompyfunc(_num(core.sym_min, _pymin), 2, 1)
_u_abs = np.frompyfunc(_num(core.sym_abs, abs), 1, 1)
_u_sign = np.frompyfunc(_num(core.sym_sign, _pysign), 1, 1)
_u_sqrt = np.frompyfunc(_num(core.sym_sqrt, lambda x: x ** 0.5), 1, 1)
_u_isfinite = np.frompyfunc(lambda x: True if isinstance(x, SymReal) else bool(np.isfinite(x)), 1, 1)
_u_isnan = np.frompyfunc(lambda x: False if isinstance(x, SymReal) else bool(np.isnan(x)), 1, 1)

_REPLACE = {
    np.logical_and: _u_and, np.logical_or: _u_or, np.logical_xor: _u_xor, np.logical_not: _u_not,
    np.bitwise_and: _u_and, np.bitwise_or: _u_or, np.bitwise_xor: _u_xor, np.invert: _u_not,
    np.maximum: _u_max, np.minimum: _u_min, np.fmax: _u_max, np.fmin: _u_min,
    np.absolute: _u_abs, np.fabs: _u_abs, np.sign: _u_sign, np.sqrt: _u_sqrt,
    np.isfinite: _u_isfinite, np.isnan: _u_isnan,
}
_BOOLEAN_RESULT = {_u_and, _u_or, _u_xor, _u_not, _u_isfinite, _u_isnan}


def _has_obj(x):
    return isinstance(x, (SymReal, SymBool)) or (isinstance(x, np.ndarray) and x.dtype == object)


def _finish(res, boolean=False):
    """view object results as SymArray; all-concrete boolean results become bool arrays"""
    if isinstance(res, tuple):
        return tuple(_finish(r, boolean) for r in res)
    if isinstance(res, np.ndarray):
        if res.dtype == object:
            if boolean or res.size > 0 and all(_is_boolish(v) for v in res.flat):
                if all(isinstance(v, (bool, np.bool_)) for v in res.flat):
                    return res.astype(bool).view(SymArray)
            return res.view(SymArray)
        return res.view(SymArray) if not isinstance(res, SymArray) else res
    if boolean and isinstance(res, np.bool_):
        return bool(res)
    return res


def concretize_mask(idx):
    """an object array of SymBool used as an index: the code needs concrete truth values -> fork"""
    if isinstance(idx, np.ndarray) and idx.dtype == object and idx.size > 0 and all(_is_boolish(v) for v in idx.flat):
        out = np.empty(idx.shape, dtype=bool)
        for i, v in np.ndenumerate(idx):
            out[i] = bool(v)
        return out
    if isinstance(idx, np.ndarray) and idx.dtype == object and idx.size == 0:
        return np.zeros(idx.shape, dtype=bool)
    if isinstance(idx, SymBool):
        return bool(idx)
    if isinstance(idx, tuple):
        return tuple(concretize_mask(i) for i in idx)
    return idx


class SymArray(np.ndarray):

    def __array_ufunc__(self, ufunc, method, *inputs, out=None, **kwargs):
        ins = tuple(x.view(np.ndarray) if isinstance(x, SymArray) else x for x in inputs)
        if out is not None:
            kwargs["out"] = tuple(x.view(np.ndarray) if isinstance(x, SymArray) else x for x in out)
        obj = any(_has_obj(x) for x in ins)
        boolean = False
        if obj:
            if ufunc in _CMP and method == "__call__":
                kwargs.setdefault("dtype", object)
                boolean = True
            elif ufunc in _REPLACE:
                ufunc = _REPLACE[ufunc]
                boolean = ufunc in _BOOLEAN_RESULT
                kwargs.pop("dtype", None)
                if method == "reduce" and kwargs.get("axis", 0) is None:
                    ins = (np.asarray(ins[0]).reshape(-1),) + ins[1:]
                    kwargs["axis"] = 0
                if method == "reduce":
                    kwargs.pop("keepdims", None) if not kwargs.get("keepdims") else None
                    a = np.asarray(ins[0])
                    if a.dtype != object:
                        a = a.astype(object)
                    ins = (a,) + ins[1:]
                    if a.size == 0:
                        ident = {id(_u_and): True, id(_u_or): False}.get(id(ufunc))
                        if ident is not None:
                            return ident
            elif ufunc is np.power and method == "__call__":
                pass
        res = getattr(ufunc, method)(*ins, **kwargs)
        if out is not None:
            return out[0] if len(out) == 1 else out
        return _finish(res, boolean)

    def __getitem__(self, idx):
        idx = concretize_mask(idx)
        r = super().__getitem__(idx)
        return r

    def __setitem__(self, idx, val):
        idx = concretize_mask(idx)
        if isinstance(val, SymArray):
            val = val.view(np.ndarray)
        super().__setitem__(idx, val)

    def __bool__(self):
        if self.dtype != object:
            return bool(self.view(np.ndarray))
        if self.size == 1:
            return bool(self.reshape(-1).view(np.ndarray)[0])
        raise ValueError("truth value of a symbolic array with more than one element is ambiguous")

    def __float__(self):
        if self.dtype != object:
            return float(self.view(np.ndarray))
        if self.size == 1:
            return float(self.reshape(-1).view(np.ndarray)[0])
        raise TypeError("only size-1 arrays")

    def __int__(self):
        if self.dtype != object:
            return int(self.view(np.ndarray))
        if self.size == 1:
            return int(self.reshape(-1).view(np.ndarray)[0])
        raise TypeError("only size-1 arrays")

    # numpy's .sqrt() etc. lookups on 0-d arrays are not needed; keep astype symbolic-safe
    def astype(self, dtype, *a, **kw):
        if self.dtype != object:
            return self.view(np.ndarray).astype(dtype, *a, **kw).view(SymArray)
        if np.dtype(dtype) == np.dtype(object):
            return self
        vals = [v for v in self.view(np.ndarray).flat]
        if all(not isinstance(v, (SymReal, SymBool)) or getattr(v, "is_const", False) for v in vals):
            base = np.array([float(v.const_value) if isinstance(v, SymReal) else (v.value if isinstance(v, SymBool) else v)
                             for v in vals], dtype=dtype).reshape(self.shape)
            return base
        raise core.Unsupported("astype(%s) of a symbolic array" % (dtype,))

    @property
    def mT(self):
        return np.swapaxes(self, -1, -2)


def sym_array(x):
    """make an object SymArray out of nested lists / arrays of numbers and SymReals"""
    if isinstance(x, SymArray):
        return x
    if isinstance(x, (SymReal, SymBool)):
        a = np.empty((), dtype=object)
        a[()] = x
        return a.view(SymArray)
    a = np.asarray(x, dtype=object)
    return a.view(SymArray)


def wrap_result(r):
    if isinstance(r, np.ndarray) and not isinstance(r, SymArray):
        return r.view(SymArray)
    if isinstance(r, (tuple, list)):
        return type(r)(wrap_result(v) for v in r)
    return r
