"""Harness-process-only shims: teach autoray/numpy about symbolic scalars.  Nothing in /repo is edited."""
from __future__ import annotations

import functools

import numpy as np
import autoray

from . import core
from .core import SymReal, SymBool, as_symreal, as_symbool
from .symarray import SymArray, sym_array, wrap_result, concretize_mask, _u_sign, _u_max, _u_min, _u_abs, _u_isfinite, _u_sqrt, _finish

_installed = False
SHIMS = [
    "autoray: SymReal/SymBool/SymArray registered as backend 'numpy'",
    "autoray numpy creation/stacking functions wrapped to return SymArray for object dtype",
    "autoray numpy where/sign/maximum/minimum/clip/abs/isfinite/sqrt/any/all/nonzero/argsort/sort/to_numpy handle symbolic entries (if-then-else atoms, no silent concretisation)",
    "desolver.backend.epsilon/tol_epsilon: object dtype yields the float64 thresholds (4*eps, 32*eps) instead of the 4e-14 fallback",
]


def _symbolic_in(x):
    if isinstance(x, (SymReal, SymBool)):
        return True
    if isinstance(x, np.ndarray) and x.dtype == object:
        return True
    if isinstance(x, (list, tuple)):
        return any(_symbolic_in(v) for v in x)
    return False


def _obj(x):
    if isinstance(x, SymArray):
        return x
    if isinstance(x, (SymReal, SymBool)):
        return sym_array(x)
    if isinstance(x, np.ndarray):
        return x
    return np.asarray(x)


def _where(cond, *args, **kw):
    kw.pop("like", None)
    if not args:
        return np.nonzero(concretize_mask(np.asarray(cond)))
    a, b = args
    if not (_symbolic_in(cond) or _symbolic_in(a) or _symbolic_in(b)):
        return np.where(cond, a, b)
    c_, a_, b_ = np.broadcast_arrays(np.asarray(_obj(cond)), np.asarray(_obj(a)), np.asarray(_obj(b)))
    out = np.empty(c_.shape, dtype=object)
    for i in np.ndindex(c_.shape):
        c = c_[i]
        if isinstance(c, SymBool):
            x, y = a_[i], b_[i]
            if isinstance(x, (SymBool, bool, np.bool_)) and isinstance(y, (SymBool, bool, np.bool_)):
                out[i] = (c & as_symbool(x)) | (~c & as_symbool(y))
            else:
                out[i] = core.sym_ite(c, x, y)
        else:
            out[i] = a_[i] if bool(c) else b_[i]
    if out.shape == ():
        return out[()]
    return _finish(out)


def _elementwise(u, npf):
    def f(x, *a, **kw):
        kw.pop("like", None)
        if _symbolic_in(x) or any(_symbolic_in(v) for v in a):
            r = u(_obj(x), *[_obj(v) if _symbolic_in(v) else v for v in a])
            return _finish(r, u is _u_isfinite)
        if isinstance(x, np.ndarray) and x.dtype == object and not a:
            # an object array that happens to hold only plain numbers (e.g. a float default where the harness passes symbols elsewhere):
            # numpy's object loops fail on numpy scalars (bool - bool); evaluate on floats and hand back an object array
            r = npf(x.astype(np.float64), **kw)
            return sym_array(r) if u is not _u_isfinite else r
        return npf(x, *a, **kw)
    return f


def _clip(x, *a, **kw):
    kw.pop("like", None)
    lo = kw.pop("min", kw.pop("a_min", None))
    hi = kw.pop("max", kw.pop("a_max", None))
    if a:
        lo = a[0]
        if len(a) > 1:
            hi = a[1]
    if not (_symbolic_in(x) or _symbolic_in(lo) or _symbolic_in(hi)):
        return np.clip(x, lo, hi, **kw)
    r = _obj(x)
    if lo is not None and not (isinstance(lo, float) and lo == -np.inf):
        r = _finish(_u_max(r, _obj(lo) if _symbolic_in(lo) else lo))
    if hi is not None and not (isinstance(hi, float) and hi == np.inf):
        r = _finish(_u_min(_obj(r), _obj(hi) if _symbolic_in(hi) else hi))
    return r


def _any(x, *a, **kw):
    kw.pop("like", None)
    if _symbolic_in(x):
        arr = np.asarray(_obj(x))
        if a or kw.get("axis") is not None:
            return np.logical_or.reduce(arr.view(SymArray), *a, **kw)
        r = False
        for v in arr.flat:
            if isinstance(v, SymReal):
                v = v != 0
            r = r | v if isinstance(v, SymBool) or isinstance(r, SymBool) else (bool(r) or bool(v))
        return r
    return np.any(x, *a, **kw)


def _all(x, *a, **kw):
    kw.pop("like", None)
    if _symbolic_in(x):
        arr = np.asarray(_obj(x))
        if a or kw.get("axis") is not None:
            return np.logical_and.reduce(arr.view(SymArray), *a, **kw)
        r = True
        for v in arr.flat:
            if isinstance(v, SymReal):
                v = v != 0
            r = r & v if isinstance(v, SymBool) or isinstance(r, SymBool) else (bool(r) and bool(v))
        return r
    return np.all(x, *a, **kw)


def _nonzero(x, **kw):
    kw.pop("like", None)
    if _symbolic_in(x):
        arr = np.asarray(_obj(x))
        if arr.size and all(isinstance(v, (SymBool, bool, np.bool_)) for v in arr.flat):
            return np.nonzero(concretize_mask(arr))
        m = np.empty(arr.shape, dtype=bool)
        for i, v in np.ndenumerate(arr):
            m[i] = bool(v != 0) if isinstance(v, SymReal) else bool(v)
        return np.nonzero(m)
    return np.nonzero(x)


def _to_numpy(x):
    return x


def _passthrough_wrap(fn):
    @functools.wraps(fn)
    def g(*a, **kw):
        return wrap_result(fn(*a, **kw))
    return g


def _asarray(x, *a, **kw):
    kw.pop("like", None)
    if isinstance(x, (SymReal, SymBool)):
        dt = kw.get("dtype", a[0] if a else None)
        if dt is not None and np.dtype(dt) != np.dtype(object):
            if isinstance(x, SymReal) and x.is_const:
                return np.asarray(float(x.const_value), dtype=dt)
            raise core.Unsupported("asarray(symbolic, dtype=%s)" % (dt,))
        return sym_array(x)
    r = np.asarray(x, *a, **kw)
    return wrap_result(r)


def _take(arr, indices, *a, **kw):
    kw.pop("like", None)
    if isinstance(indices, np.ndarray) and indices.dtype == object:
        # indices computed from symbolic data (where(cond, j_upper, j_lower)): the code needs concrete positions -> fork per element
        conc = np.empty(indices.shape, dtype=np.int64)
        for i, v in np.ndenumerate(indices):
            conc[i] = int(v)
        indices = conc
    elif isinstance(indices, SymReal):
        indices = int(indices)
    return wrap_result(np.take(arr, indices, *a, **kw))


def _linalg_norm(x, *a, **kw):
    kw.pop("like", None)
    if _symbolic_in(x) and not a and not kw:
        arr = np.asarray(_obj(x)).reshape(-1)
        if arr.size == 1:
            return core.sym_abs(arr[0]) if isinstance(arr[0], SymReal) else abs(arr[0])
        s = 0
        for v in arr:
            s = s + v * v
        return core.sym_sqrt(s) if isinstance(s, SymReal) else s ** 0.5
    return np.linalg.norm(x, *a, **kw)


def _isnan(x, **kw):
    kw.pop("like", None)
    if _symbolic_in(x):
        arr = np.asarray(_obj(x))
        out = np.zeros(arr.shape, dtype=bool)
        for i, v in np.ndenumerate(arr):
            out[i] = isinstance(v, (float, np.floating)) and bool(np.isnan(v))      # a symbolic real is a real number
        return out if out.shape != () else bool(out)
    return np.isnan(x, **kw)


def _isinf(x, **kw):
    kw.pop("like", None)
    if _symbolic_in(x):
        arr = np.asarray(_obj(x))
        out = np.zeros(arr.shape, dtype=bool)
        for i, v in np.ndenumerate(arr):
            out[i] = isinstance(v, (float, np.floating)) and bool(np.isinf(v))
        return out if out.shape != () else bool(out)
    return np.isinf(x, **kw)


def _isclose(a, b, rtol=1e-05, atol=1e-08, equal_nan=False, **kw):
    """numpy's definition |a - b| <= atol + rtol*|b|, kept symbolic (a mask / a SymBool) when either side is symbolic"""
    kw.pop("like", None)
    if _symbolic_in(a) or _symbolic_in(b):
        absf = _elementwise(_u_abs, np.abs)
        A, B = _obj(a), _obj(b)
        r = absf(A - B) <= (atol + rtol * absf(B))
        if isinstance(r, np.ndarray) and r.shape == ():
            return r.reshape(-1)[0]
        return r
    return np.isclose(a, b, rtol=rtol, atol=atol, equal_nan=equal_nan)


def _allclose(a, b, rtol=1e-05, atol=1e-08, equal_nan=False, **kw):
    kw.pop("like", None)
    if _symbolic_in(a) or _symbolic_in(b):
        return _all(_isclose(a, b, rtol=rtol, atol=atol, equal_nan=equal_nan))
    return np.allclose(a, b, rtol=rtol, atol=atol, equal_nan=equal_nan)


def install():
    global _installed
    if _installed:
        return
    _installed = True
    for cls in (SymReal, SymBool, SymArray):
        autoray.register_backend(cls, "numpy")
    reg = autoray.register_function
    reg("numpy", "where", _where)
    reg("numpy", "sign", _elementwise(_u_sign, np.sign))
    reg("numpy", "maximum", _elementwise(_u_max, np.maximum))
    reg("numpy", "minimum", _elementwise(_u_min, np.minimum))
    reg("numpy", "abs", _elementwise(_u_abs, np.abs))
    reg("numpy", "absolute", _elementwise(_u_abs, np.abs))
    reg("numpy", "sqrt", _elementwise(_u_sqrt, np.sqrt))
    reg("numpy", "isfinite", _elementwise(_u_isfinite, np.isfinite))
    reg("numpy", "clip", _clip)
    reg("numpy", "any", _any)
    reg("numpy", "all", _all)
    reg("numpy", "nonzero", _nonzero)
    reg("numpy", "to_numpy", _to_numpy)
    reg("numpy", "asarray", _asarray)
    reg("numpy", "linalg.norm", _linalg_norm)
    reg("numpy", "take", _take)
    reg("numpy", "isnan", _isnan)
    reg("numpy", "isinf", _isinf)
    reg("numpy", "isclose", _isclose)
    reg("numpy", "allclose", _allclose)
    for name in ("zeros", "ones", "zeros_like", "ones_like", "stack", "concatenate", "copy", "clone", "reshape", "tile",
                 "atleast_1d", "atleast_2d", "array", "sum", "transpose", "eye", "diag", "empty", "full", "sort",
                 "swapaxes", "ravel", "squeeze", "expand_dims", "cumsum", "prod", "max", "min", "arange", "linspace",
                 "flip", "diff", "moveaxis", "broadcast_to", "repeat", "roll", "dot", "matmul", "outer", "mean", "hstack", "vstack", "meshgrid"):
        try:
            base = getattr(np, name) if name != "clone" else np.copy
        except AttributeError:
            continue
        reg("numpy", name, _passthrough_wrap(base))

    import desolver.backend as D
    import desolver.backend.autoray_backend as ab
    f64_eps = float(np.finfo(np.float64).eps)
    _orig_eps, _orig_tol = ab.epsilon, ab.tol_epsilon

    def epsilon(dtype=np.float64):
        try:
            if np.dtype(dtype) == np.dtype(object):
                return f64_eps * 4
        except TypeError:
            pass
        return _orig_eps(dtype)

    def tol_epsilon(dtype=np.float64):
        try:
            if np.dtype(dtype) == np.dtype(object):
                return f64_eps * 32
        except TypeError:
            pass
        return _orig_tol(dtype)

    for mod in (D, ab):
        mod.epsilon = epsilon
        mod.tol_epsilon = tol_epsilon
    try:
        import desolver.backend.load_backend as lb
        lb.epsilon = epsilon
        lb.tol_epsilon = tol_epsilon
    except Exception:
        pass
