"""bin/check <ID> [--tier quick|thorough] [--replay FILE]

Spawns one worker process per harness instance (hard wall limit, SIGKILL), aggregates,
writes /verif/evidence/<ID>.json, prints KNOWN-FINDING / VIOLATION lines.
exit 0: property held on everything explored (or only listed known findings);
exit 1: a violation that replays on the real float code and is not listed;
exit 3: harness broken (no instance produced a result).
"""
from __future__ import annotations

import argparse
import importlib
import json
import os
import subprocess
import sys
import tempfile
import time

VERIF = os.path.dirname(os.path.dirname(os.path.abspath(__file__)))
OUT = os.environ.get("SRX_OUT", VERIF)      # developer self-tests redirect evidence/replays away from /verif
REPO = os.environ.get("SRX_REPO", "/repo")
sys.path.insert(0, REPO)
sys.path.insert(0, VERIF)

MODULES = {
    "C01": "checks.c01_order", "C02": "checks.c02_step", "C03": "checks.c03_span", "C04": "checks.c04_fixedstep",
    "C05": "checks.c05_adaptive", "C06": "checks.c06_dense", "C07": "checks.c07_events", "C08": "checks.c08_missed",
    "C09": "checks.c09_terminal", "C10": "checks.c10_symplectic", "C11": "checks.c11_astab", "C12": "checks.c12_failure",
    "C13": "checks.c13_history", "C14": "checks.c14_brent", "C16": "checks.c16_jacobian", "C17": "checks.c17_primitives",
    "C18": "checks.c18_solve_ivp", "C19": "checks.c19_indexing", "C20": "checks.c20_counters",
}


def load_known(pid):
    keys = {}
    path = os.path.join(VERIF, "KNOWN_FINDINGS.txt")
    if os.path.exists(path):
        for line in open(path):
            line = line.strip()
            if not line.startswith("finding:"):
                continue
            parts = line[len("finding:"):].split()
            kv = dict(p.split("=", 1) for p in parts[:2] if "=" in p)
            if kv.get("property") == pid and "key" in kv:
                keys[kv["key"]] = " ".join(parts[2:])
    return keys


def main(argv=None):
    ap = argparse.ArgumentParser()
    ap.add_argument("pid")
    ap.add_argument("--tier", default=os.environ.get("VERIF_TIER", "quick"))
    ap.add_argument("--replay", default=None)
    ap.add_argument("--only", default=None, help="substring filter on instance ids (developer aid)")
    ap.add_argument("--jobs", type=int, default=int(os.environ.get("SRX_JOBS", "16")))
    args = ap.parse_args(argv)
    pid = args.pid.upper()
    tier = args.tier if args.tier in ("quick", "thorough") else "quick"
    seed = int(os.environ.get("VERIF_SEED", "0") or 0)
    if args.replay:
        return do_replay(args.replay)
    modname = MODULES[pid]
    t0 = time.time()
    mod = importlib.import_module(modname)
    insts = mod.instances(tier)
    idxs = list(range(len(insts)))
    known = load_known(pid)
    default_wall = 90.0 if tier == "quick" else 900.0
    walls = [float(i.get("budget", {}).get("wall_s", default_wall)) * 1.5 + 20.0 for i in insts]
    if args.only:
        keep = [i for i in idxs if args.only in insts[i].get("id", "")]
    else:
        keep = idxs
    results_all = run_workers_subset(modname, keep, tier, walls, list(known), args.jobs)
    return finish(pid, tier, seed, mod, insts, keep, results_all, known, time.time() - t0)


def run_workers_subset(modname, keep, tier, walls, known_keys, jobs):
    # run_workers indexes instances 0..n-1; map the subset
    tmp_results = {}
    if not keep:
        return tmp_results
    # simple: run all requested indices through a private pool
    tmpdir = tempfile.mkdtemp(prefix="srx_")
    env = dict(os.environ)
    env["PYTHONPATH"] = REPO + ":" + VERIF + (":" + env["PYTHONPATH"] if env.get("PYTHONPATH") else "")
    env["SRX_KNOWN_KEYS"] = ",".join(known_keys)
    env.setdefault("PYTHONHASHSEED", "0")
    pending = list(keep)
    running = {}
    while pending or running:
        while pending and len(running) < jobs:
            i = pending.pop(0)
            out = os.path.join(tmpdir, "r%d.json" % i)
            errf = open(os.path.join(tmpdir, "e%d.txt" % i), "w")
            p = subprocess.Popen([sys.executable, "-m", "srx.worker", modname, str(i), tier, out], env=env, cwd=VERIF,
                                 stdout=subprocess.DEVNULL, stderr=errf)
            running[i] = (p, time.time(), out, errf)
        time.sleep(0.05)
        for i in list(running):
            p, t0, out, errf = running[i]
            rc = p.poll()
            if rc is None:
                if time.time() - t0 > walls[i]:
                    p.kill()
                    p.wait()
                    errf.close()
                    tmp_results[i] = dict(killed=True, wall_total_s=round(time.time() - t0, 1))
                    del running[i]
                continue
            errf.close()
            del running[i]
            if os.path.exists(out):
                try:
                    tmp_results[i] = json.load(open(out))
                except Exception as e:
                    tmp_results[i] = dict(fatal="bad result file %r" % e)
            else:
                err = ""
                try:
                    err = open(os.path.join(tmpdir, "e%d.txt" % i)).read()[-2000:]
                except Exception:
                    pass
                tmp_results[i] = dict(fatal="worker exited rc=%s without result" % rc, tb=err)
    try:
        for f in os.listdir(tmpdir):
            os.unlink(os.path.join(tmpdir, f))
        os.rmdir(tmpdir)
    except OSError:
        pass
    return tmp_results


def finish(pid, tier, seed, mod, insts, keep, results, known, wall):
    agg = dict(paths=0, nontrivial_paths=0, infeasible=0, checks=0, trivial=0, discharged=0, sat=0, inconclusive=0,
               queries=0, solver_s=0.0, budget_hit=0, harness_errors=0, unsupported=0, unknown_feasibility=0,
               skipped_after_cap=0, known_sat=0, extra_cases=0, masked_by_known_region=0)
    cut = {}
    per_check = {}
    functions = set()
    samples = []
    violations = []
    known_hits = {}
    not_repro = []
    inst_rows = []
    problems = []
    n_ok = 0
    exhaustive = True
    for i in keep:
        r = results.get(i, dict(fatal="missing"))
        iid = insts[i].get("id", str(i))
        if r.get("killed"):
            problems.append(dict(instance=iid, kind="killed_at_wall_limit", wall_s=r.get("wall_total_s")))
            inst_rows.append(dict(id=iid, status="killed (inconclusive)"))
            exhaustive = False
            continue
        if "fatal" in r:
            problems.append(dict(instance=iid, kind="worker_failed", detail=r.get("fatal"), tb=r.get("tb", "")[-800:]))
            inst_rows.append(dict(id=iid, status="worker failed (inconclusive)"))
            exhaustive = False
            continue
        n_ok += 1
        st = r["stats"]
        for k in agg:
            if k in st:
                agg[k] += st[k]
        for k, v in st.get("cut", {}).items():
            cut[k] = cut.get(k, 0) + v
        for k, v in r.get("checks", {}).items():
            pc = per_check.setdefault(k, dict(evaluated=0, trivial=0, discharged=0, sat=0, inconclusive=0, known=0, masked=0))
            for kk in pc:
                pc[kk] += v.get(kk, 0)
        functions.update(r.get("functions", []))
        if not st.get("exhausted", False):
            exhaustive = False
        for s in r.get("samples", [])[:3]:
            if len(samples) < 24:
                s = dict(s)
                s["instance"] = iid
                samples.append(s)
        for e in r.get("errors", [])[:3]:
            problems.append(dict(instance=iid, kind=e.get("kind"), detail=e.get("detail"), tb=e.get("tb", "")[-1200:]))
        for v in r.get("violations", []):
            v = dict(v)
            v["instance"] = iid
            v["instance_index"] = i
            violations.append(v)
        for v in r.get("not_reproduced", []):
            not_repro.append(dict(instance=iid, check=v["check"], witness=v["witness"], replay=v.get("replay")))
        for h in r.get("known", []):
            known_hits.setdefault(h["key"], []).append(dict(instance=iid, check=h["check"], witness=h["witness"],
                                                           replayed=bool(h.get("replay", {}).get("reproduced"))))
        inst_rows.append(dict(id=iid, status="ok", paths=st["paths"], checks=st["checks"], discharged=st["discharged"],
                              sat=st["sat"], inconclusive=st["inconclusive"], exhausted=st.get("exhausted"),
                              wall_s=r.get("wall_total_s")))
    # ---- report
    os.makedirs(os.path.join(OUT, "replays"), exist_ok=True)
    for f in os.listdir(os.path.join(OUT, "replays")):      # stale counterexamples of earlier runs of this property
        if f.startswith(pid + "-") and f.endswith(".json"):
            os.unlink(os.path.join(OUT, "replays", f))
    os.makedirs(os.path.join(OUT, "evidence"), exist_ok=True)
    lines = []
    for k, hits in sorted(known_hits.items()):
        desc = known.get(k, "")
        replayed = [x for x in hits if x["replayed"]]
        if not replayed:
            continue        # a model inside a listed region that does not replay on the float code is no finding (counted in the evidence)
        h = replayed[0]
        print("KNOWN-FINDING: property=%s key=%s %s [check %s, instance %s, witness %s, replayed on float code: %s]" % (
            pid, k, desc, h["check"], h["instance"], json.dumps(h["witness"])[:300], any(x["replayed"] for x in hits)))
    vio_files = []
    seen = set()
    for n, v in enumerate(violations):
        key = (v["instance"], v["check"])
        if key in seen:
            continue
        seen.add(key)
        path = os.path.join(OUT, "replays", "%s-%d.json" % (pid, len(vio_files)))
        with open(path, "w") as f:
            json.dump(dict(property=pid, module=MODULES[pid], tier=tier, instance_index=v["instance_index"], instance=v["instance"],
                           check=v["check"], witness=v["witness"], info=v.get("info"), observed=v.get("replay")), f, indent=1, default=str)
        vio_files.append(path)
        print("VIOLATION property=%s replay=%s" % (pid, path))
        print("  check=%s instance=%s witness=%s" % (v["check"], v["instance"], json.dumps(v["witness"])[:400]))
    distinct = agg["nontrivial_paths"] + agg["extra_cases"]
    evaluations = agg["checks"]
    explanation = getattr(mod, "EXPLANATION", "")
    cov = dict(
        evaluations=max(1, evaluations),
        distinct_nontrivial=distinct,
        rule=("one evaluation = one assertion query over a symbolic path of the real code (solver asked for pc AND NOT assertion); "
              "distinct_nontrivial = feasible symbolic paths (distinct decision sequences, path condition satisfiable) on which at least "
              "one assertion was evaluated, plus distinct obligations counted by the harness inside a path (e.g. one rooted tree x method); "
              "each stands for all real inputs satisfying its path condition"),
        samples=samples[:24] if samples else [dict(note="no completed path")],
        explanation=explanation,
        exhaustive=bool(exhaustive and not problems),
        obligations=evaluations,
        discharged=agg["discharged"] + agg["trivial"],
        discharged_by_solver=agg["discharged"],
        discharged_syntactically=agg["trivial"],
        sat=agg["sat"],
        inconclusive=agg["inconclusive"] + agg["skipped_after_cap"],
        masked_by_known_region=agg["masked_by_known_region"],
        not_reproduced_on_float_code=len(not_repro),
        not_reproduced=not_repro[:10],
        paths=agg["paths"], infeasible_prefixes=agg["infeasible"], cut_paths=cut, budget_hit=agg["budget_hit"],
        branch_feasibility_unknown=agg["unknown_feasibility"],
        solver_queries=agg["queries"], solver_time_s=round(agg["solver_s"], 2),
        functions_encoded=sorted(functions),
        bounds=getattr(mod, "BOUNDS", {}).get(tier, getattr(mod, "BOUNDS", {})),
        outside_claim=getattr(mod, "OUTSIDE", []),
        per_check=per_check,
        instances=inst_rows,
        problems=problems[:20],
        known_findings_matched=sorted(k for k, hits in known_hits.items() if any(x["replayed"] for x in hits)),
        known_region_models_not_reproduced=sorted(k for k, hits in known_hits.items() if not any(x["replayed"] for x in hits)),
        engine="SRX: the imported /repo/desolver source executed on polynomial-normal-form symbolic reals in numpy object arrays; z3 %s decides path feasibility and assertions" % _z3ver(),
    )
    ev = dict(property_id=pid, tier=tier, seed=seed, level=getattr(mod, "LEVEL", "other"), coverage=cov,
              assumptions=list(getattr(mod, "ASSUMPTIONS", [])) + _shim_list(), wall_s=round(wall, 2), violations=len(vio_files))
    tmp = os.path.join(OUT, "evidence", pid + ".json.tmp")
    with open(tmp, "w") as f:
        json.dump(ev, f, indent=1, default=str)
    os.replace(tmp, os.path.join(OUT, "evidence", pid + ".json"))
    print("%s tier=%s instances=%d/%d paths=%d assertions=%d discharged=%d(+%d syntactic) sat=%d known=%d inconclusive=%d not-reproduced=%d problems=%d wall=%.1fs" % (
        pid, tier, n_ok, len(keep), agg["paths"], agg["checks"], agg["discharged"], agg["trivial"], agg["sat"], agg["known_sat"],
        cov["inconclusive"], len(not_repro), len(problems), wall))
    for p in problems[:6]:
        print("  problem:", json.dumps(p)[:600])
    if vio_files:
        return 1
    if n_ok == 0:
        return 3
    return 0


def _z3ver():
    try:
        import z3
        return z3.get_version_string()
    except Exception:
        return "?"


def _shim_list():
    try:
        from srx import shims
        return ["shim: " + s for s in shims.SHIMS]
    except Exception:
        return []


def do_replay(path):
    from srx import shims, worker
    shims.install()
    d = json.load(open(path))
    mod = importlib.import_module(d["module"])
    inst = mod.instances(d.get("tier", "quick"))[d["instance_index"]]
    rep = worker.replay(mod, inst, d["witness"], d["check"])
    print(json.dumps(rep, indent=1, default=str))
    if rep.get("reproduced"):
        print("VIOLATION property=%s replay=%s" % (d["property"], path))
        return 1
    return 0


if __name__ == "__main__":
    sys.exit(main())
