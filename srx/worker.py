"""Run one harness instance: explore symbolically, replay candidates on the real float code, dump JSON.

usage: python -m srx.worker <module> <instance-index> <tier> <outfile>
"""
from __future__ import annotations

import json
import os
import sys
import time
import traceback
import warnings

warnings.filterwarnings("ignore")
REPO = os.environ.get("SRX_REPO", "/repo")
sys.path.insert(0, REPO)
VERIF = os.path.dirname(os.path.dirname(os.path.abspath(__file__)))
sys.path.insert(0, VERIF)


def _profile_functions(run_once):
    """measure which desolver functions are entered (first path only)"""
    seen = set()

    def prof(frame, event, arg):
        if event == "call":
            co = frame.f_code
            fn = co.co_filename
            if fn.startswith(REPO + "/desolver") and "/tests/" not in fn:
                seen.add("%s:%s" % (fn[len(REPO) + 1:], co.co_qualname if hasattr(co, "co_qualname") else co.co_name))
    sys.setprofile(prof)
    try:
        run_once()
    finally:
        sys.setprofile(None)
    return sorted(seen)


def run_instance(modname, idx, tier, seed=0, known_keys=()):
    import importlib
    from srx import core, shims
    from srx.explorer import Explorer, ConcreteCtx, ReplayInvalid
    shims.install()
    mod = importlib.import_module(modname)
    insts = mod.instances(tier)
    inst = insts[idx]
    budget = dict(max_paths=2000, max_branches=600, wall_s=60.0, solver_timeout_ms=8000, max_int_choices=16)
    budget.update(inst.get("budget", {}))
    ex = Explorer(known_keys=known_keys, seed=seed, **budget)
    funcs = []
    first = [True]

    def fn(c):
        if first[0]:
            first[0] = False
            funcs.extend(_profile_functions(lambda: mod.scenario(c, inst)))
        else:
            mod.scenario(c, inst)

    t0 = time.time()
    ex.explore(fn)
    res = ex.summary()
    res["instance"] = inst.get("id", str(idx))
    res["params"] = {k: v for k, v in inst.items() if k not in ("budget",) and isinstance(v, (int, float, str, bool, list, tuple, type(None)))}
    res["functions"] = funcs
    # ---- replay on the real float64 code
    core.set_ctx(None)
    violations = []
    not_reproduced = []
    for cand in res["candidates"]:
        rep = replay(mod, inst, cand["witness"], cand["check"])
        cand["replay"] = rep
        if rep["reproduced"]:
            violations.append(cand)
        else:
            not_reproduced.append(cand)
    known = []
    for hit in res["known_hits"]:
        rep = replay(mod, inst, hit["witness"], hit["check"])
        hit["replay"] = rep
        known.append(hit)
    res["violations"] = violations
    res["not_reproduced"] = not_reproduced
    res["known"] = known
    res["wall_total_s"] = round(time.time() - t0, 3)
    return res


def replay(mod, inst, witness, check_name):
    from srx.explorer import ConcreteCtx, ReplayInvalid
    from srx import core
    core.set_ctx(None)
    out = dict(reproduced=False, failed=[], note="")
    custom = getattr(mod, "replay", None)
    try:
        if custom is not None:
            r = custom(inst, witness, check_name)
            out.update(r)
            return out
        cc = ConcreteCtx(witness)
        mod.scenario(cc, inst)
        out["failed"] = sorted(set(cc.failed))
        out["reproduced"] = check_name in cc.failed
        out["notes"] = {k: repr(v)[:300] for k, v in cc.notes.items()}
    except ReplayInvalid as e:
        out["note"] = "replay invalid: %s" % e
    except core.SrxControl as e:
        out["note"] = "replay left the harness bound: %r" % (e,)
    except Exception as e:
        out["note"] = "replay raised %r" % (e,)
        out["tb"] = traceback.format_exc()[-1500:]
    return out


def main():
    modname, idx, tier, outfile = sys.argv[1], int(sys.argv[2]), sys.argv[3], sys.argv[4]
    seed = int(os.environ.get("VERIF_SEED", "0") or 0)
    known = [k for k in os.environ.get("SRX_KNOWN_KEYS", "").split(",") if k]
    try:
        res = run_instance(modname, idx, tier, seed, known)
    except BaseException as e:
        res = dict(fatal=repr(e), tb=traceback.format_exc()[-3000:])
    tmp = outfile + ".tmp"
    with open(tmp, "w") as f:
        json.dump(res, f, default=str)
    os.replace(tmp, outfile)


if __name__ == "__main__":
    main()
