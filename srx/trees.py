"""Rooted trees (Butcher): enumeration, order, density gamma, and the polynomial 'tree system'.

A tree is a sorted tuple of its children (each a tree); the single vertex is ().
Tree system of tau: one component per vertex, y_v' = prod_{w child of v} y_w (leaf: y_v' = 1), y(0) = 0.
Exact flow: y_v(t) = t^{|tau_v|} / gamma(tau_v).  One step of a one-step method gives Phi(tau) h^{|tau|} at the root.
"""
from __future__ import annotations

import functools
from fractions import Fraction


@functools.lru_cache(maxsize=None)
def trees_of_order(n):
    if n == 1:
        return ((),)
    out = set()
    # children multiset: partitions of n-1 into tree orders
    for part in _partitions(n - 1):
        for combo in _forests(part):
            out.add(tuple(sorted(combo)))
    return tuple(sorted(out))


def _partitions(n, maxpart=None):
    if maxpart is None:
        maxpart = n
    if n == 0:
        yield ()
        return
    for k in range(min(n, maxpart), 0, -1):
        for rest in _partitions(n - k, k):
            yield (k,) + rest


def _forests(part):
    """all multisets of trees with the given (non-increasing) orders"""
    if not part:
        yield ()
        return
    k = part[0]
    m = 1
    while m < len(part) and part[m] == k:
        m += 1
    rest = part[m:]
    from itertools import combinations_with_replacement
    for combo in combinations_with_replacement(trees_of_order(k), m):
        for r in _forests(rest):
            yield combo + r


@functools.lru_cache(maxsize=None)
def order(t):
    return 1 + sum(order(c) for c in t)


@functools.lru_cache(maxsize=None)
def gamma(t):
    g = order(t)
    for c in t:
        g *= gamma(c)
    return g


def layout(t):
    """vertex numbering (root = 0); returns children lists and the subtree of every vertex"""
    children = []
    sub = []

    def rec(node):
        i = len(children)
        children.append([])
        sub.append(node)
        for ch in node:
            j = rec(ch)
            children[i].append(j)
        return i
    rec(t)
    return children, sub


def bushy(k):
    """root with k leaves (order k+1)"""
    return tuple(() for _ in range(k))


def tall(n):
    t = ()
    for _ in range(n - 1):
        t = (t,)
    return t


def all_trees_up_to(p):
    out = []
    for n in range(1, p + 1):
        out.extend(trees_of_order(n))
    return out


def tree_str(t):
    return "[" + "".join(tree_str(c) for c in t) + "]"
